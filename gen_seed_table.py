#!/usr/bin/env python3
# Rewrites the table of DESIGN.md section 6 from seeded/*/meta.json.
import json, glob, os, re
rows = []
for d in sorted(glob.glob('/verif/seeded/*/')):
    m = json.load(open(os.path.join(d, 'meta.json')))
    name = os.path.basename(d.rstrip('/'))
    rows.append("| `%s` | %s | %s | %s |" % (name, m['breaks_property'], m['needs_to_manifest'].replace('|', '/'), m['caught_by'].replace('|', '/')))
s = open('/verif/DESIGN.md').read()
head = "| seeded change | property | what it needs to manifest | caught by |\n|---|---|---|---|\n"
i = s.index(head)
s = s[:i] + head + "\n".join(rows) + "\n"
open('/verif/DESIGN.md', 'w').write(s)
print(len(rows), "rows")
