#!/bin/bash
# dev helper: ./dev_run.sh <fn> [engine args]; prints failures and a summary line
fn=$1; shift
out=$(mktemp /tmp/devrun.XXXXXX.json)
start=$(date +%s.%N)
timeout ${DEV_TIMEOUT:-150} /verif/bin/gosmt -fn $fn -out $out "$@" 2>/tmp/devrun_$fn.err
rc=$?
python3 - "$out" "$fn" "$rc" "$start" <<'PY'
import json,sys,time
out,fn,rc,start=sys.argv[1:5]
try:
    d=json.load(open(out))
except Exception as e:
    print("%-40s rc=%s NO RESULT (timeout?)"%(fn,rc)); sys.exit()
bad=[o for o in (d.get('obligations') or []) if not o['ok']]
print("%-40s rc=%s status=%s obl=%d bad=%d enc=%sms solver=%sms instrs=%s terms=%s %s"%(fn,rc,d.get('status'),len(d.get('obligations') or []),len(bad),d.get('encode_ms'),d.get('solver_ms'),d.get('instrs'),d.get('terms'),(d.get('inconclusive') or '')[:300]))
for o in bad:
    print("   BAD %s:%s want=%s got=%s %s sites=%s"%(o['kind'],o['id'],o['want'],o['status'],json.dumps(o.get('nondets',{}))[:300],(o.get('sites') or [])[:4]))
    for s in (o.get('schedule') or [])[:60]: print("       "+s)
PY
rm -f $out
