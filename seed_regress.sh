#!/bin/bash
# Re-evaluates every recorded seed against the current machinery (private repo copies, 4 in parallel).
cd /verif
mkdir -p /tmp/batch/regress
run_one() {
  d=$1; name=$(basename $d)
  prop=$(python3 -c "import json;print(json.load(open('$d/meta.json'))['breaks_property'])")
  tier=$(python3 -c "import json;print(json.load(open('$d/meta.json')).get('tier','quick'))")
  ./seed_eval.sh $d/patch.diff $prop $tier > /tmp/batch/regress/$name.txt 2>&1
  echo "$name $prop $tier $(grep -c '^VIOLATION' /tmp/batch/regress/$name.txt) violations $(grep 'check exit' /tmp/batch/regress/$name.txt)"
}
export -f run_one
ls -d /verif/seeded/*/ | xargs -P 4 -I{} bash -c 'run_one {}'
