package main

import "testing"

func TestAndEqConst(t *testing.T) {
	TS = NewTermStore()
	s1 := Var("s_1", 8)
	a := Var("a", 0)
	x := And(a, Eq(s1, BV(1, 8)))
	g := And(Var("b", 0), Eq(s1, BV(2, 8)))
	r := And(g, x)
	if !r.IsFalse() {
		t.Fatalf("expected false, got %s", r)
	}
	v := Ite(x, BV(5, 64), BV(0, 64))
	rr := restrictTerm(v, g)
	if !rr.IsConst() || rr.val != 0 {
		t.Fatalf("restrict: %s", rr)
	}
	n := And(g, Not(Eq(s1, BV(1, 8))))
	if n != g {
		t.Fatalf("redundant not-eq kept: %s", n)
	}
}
