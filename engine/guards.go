package main

// Lock-discipline (guard table) checks and try-observed mutex marking.

import (
	"fmt"
	"go/types"
	"strings"

	"golang.org/x/tools/go/ssa"
)

// GuardRule: field `Field` of struct type `Type` is guarded by mutex field `Mu` of the same struct.
type GuardRule struct {
	Type  string // e.g. "Buffer"
	Field string
	Mu    string
	// WriteOnly: reads of the field cell itself need no lock (written only before publication or
	// inside the locked lazy initialiser); objects reached through it are still fully guarded
	WriteOnly bool
}

var guardTable = []GuardRule{
	{Type: "Buffer", Field: "buffer", Mu: "mutex"},
	{Type: "Buffer", Field: "offset", Mu: "mutex"},
	{Type: "Buffer", Field: "consumers", Mu: "mutex", WriteOnly: true},
	{Type: "Buffer", Field: "cleaner", Mu: "mutex"},
	{Type: "Buffer", Field: "done", Mu: "mutex", WriteOnly: true},
	{Type: "consumer", Field: "offset", Mu: "mutex"},
	{Type: "consumer", Field: "done", Mu: "mutex"},
	{Type: "Channel", Field: "buffer", Mu: "mutex"},
	{Type: "Channel", Field: "rollback", Mu: "mutex"},
	{Type: "Channel", Field: "done", Mu: "mutex"},
	{Type: "Exclusive", Field: "work", Mu: "mutex"},
	{Type: "Workers", Field: "count", Mu: "mutex"},
	{Type: "Workers", Field: "target", Mu: "mutex"},
	{Type: "Workers", Field: "queue", Mu: "mutex"},
	{Type: "Workers", Field: "cond", Mu: "mutex", WriteOnly: true},
	{Type: "Worker", Field: "wg", Mu: "mu"},
	{Type: "Worker", Field: "stop", Mu: "mu", WriteOnly: true},
	{Type: "Worker", Field: "done", Mu: "mu", WriteOnly: true},
	{Type: "Notifier", Field: "subscribers", Mu: "mutex"},
}

var tryObservedFields = map[string]bool{} // "Type.field"

// scanTryObserved finds mutex fields on which a Try* operation is performed anywhere in the package.
func (e *Engine) scanTryObserved() {
	for fn := range ssaAllFunctions(e.prog, e.pkg) {
		for _, b := range fn.Blocks {
			for _, ins := range b.Instrs {
				call, ok := ins.(ssa.CallInstruction)
				if !ok {
					continue
				}
				cm := call.Common()
				sc := cm.StaticCallee()
				if sc == nil {
					continue
				}
				n := sc.String()
				if !strings.HasSuffix(n, ".TryRLock") && !strings.HasSuffix(n, ".TryLock") {
					continue
				}
				if len(cm.Args) == 0 {
					continue
				}
				if fa, ok := cm.Args[0].(*ssa.FieldAddr); ok {
					st := fa.X.Type().(*types.Pointer).Elem()
					su := st.Underlying().(*types.Struct)
					tryObservedFields[typeBaseName(st)+"."+su.Field(fa.Field).Name()] = true
				}
			}
		}
	}
}

func typeBaseName(t types.Type) string {
	if n, ok := t.(*types.Named); ok {
		return n.Obj().Name()
	}
	return t.String()
}

func ssaAllFunctions(prog *ssa.Program, pkg *ssa.Package) map[*ssa.Function]bool {
	out := map[*ssa.Function]bool{}
	var add func(f *ssa.Function)
	add = func(f *ssa.Function) {
		if f == nil || out[f] {
			return
		}
		out[f] = true
		for _, a := range f.AnonFuncs {
			add(a)
		}
	}
	for _, m := range pkg.Members {
		switch x := m.(type) {
		case *ssa.Function:
			add(x)
		case *ssa.Type:
			for _, t := range []types.Type{x.Type(), types.NewPointer(x.Type())} {
				ms := prog.MethodSets.MethodSet(t)
				for i := 0; i < ms.Len(); i++ {
					add(prog.MethodValue(ms.At(i)))
				}
			}
		}
	}
	return out
}

// applyGuardTable annotates the cells of a freshly created object.
func (e *Engine) applyGuardTable(root *Cell) {
	var walk func(c *Cell)
	walk = func(c *Cell) {
		if st, ok := c.T.Underlying().(*types.Struct); ok && len(c.Kids) == st.NumFields() {
			tn := typeBaseName(c.T)
			for i := 0; i < st.NumFields(); i++ {
				fn := st.Field(i).Name()
				if tryObservedFields[tn+"."+fn] {
					c.Kids[i].TryObserved = true
				}
				for _, r := range guardTable {
					if r.Type == tn && r.Field == fn {
						mu := fieldCell(c, r.Mu)
						c.Kids[i].Guard = &GuardSpec{Mu: mu, Field: tn + "." + fn, WriteOnly: r.WriteOnly}
					}
				}
			}
		}
		for _, k := range c.Kids {
			walk(k)
		}
	}
	walk(root)
}

func (e *Engine) checkCellGuard(c *Config, cell *Cell, write bool, under *Term) {
	if !e.guardsOn {
		return
	}
	gs := cell.Guard
	if gs == nil && cell.Obj != nil {
		gs = cell.Obj.Guard
	}
	if gs == nil {
		return
	}
	e.checkGuardSpec(c, gs, write, under)
}

func (e *Engine) checkObjGuard(c *Config, o *Object, write bool) {
	if !e.guardsOn || o == nil || o.Guard == nil {
		return
	}
	e.checkGuardSpec(c, o.Guard, write, TS.True)
}

// constructors write the fields of an object that is not yet published
var guardExemptFuncs = map[string]bool{"NewConsumer": true, "NewChannel": true, "NewChanPubSub": true, "NewChanCaster": true}

func (e *Engine) checkGuardSpec(c *Config, gs *GuardSpec, write bool, under *Term) {
	if !write && gs.WriteOnly {
		return
	}
	if len(c.stack) > 0 && guardExemptFuncs[c.top().fn.Name()] && !strings.HasPrefix(gs.Field, "Buffer.") {
		return
	}
	h := e.heldMode(c, gs.Mu)
	var ok *Term
	if write {
		ok = Eq(h, BV(2, 2))
	} else {
		ok = Not(Eq(h, BV(0, 2)))
	}
	if ok.IsTrue() {
		return
	}
	kind := "read"
	if write {
		kind = "write"
	}
	where := "?"
	if len(c.stack) > 0 {
		where = c.top().fn.Name()
		if p := c.top().fn.Parent(); p != nil {
			where = p.Name() + "/" + where
		}
	}
	e.guardViol = append(e.guardViol, Obl{ID: "guard:" + gs.Field + ":" + kind + "@" + where, G: And(c.g, under), Cond: ok,
		Pos: fmt.Sprintf("%s %s of %s without %s", e.posOf(c), kind, gs.Field, gs.Mu.Path), Step: e.step})
}

// taint propagates a field's guard to the map / backing array stored into it.
func (e *Engine) taint(cell *Cell, v Value) {
	gs := cell.Guard
	if gs == nil {
		return
	}
	if gs.WriteOnly {
		gs = &GuardSpec{Mu: gs.Mu, Field: gs.Field + "(contents)"}
	}
	switch x := v.(type) {
	case *RefV:
		for _, a := range x.Alts {
			if m, ok := a.R.(*MapObj); ok && m.Obj.Guard == nil {
				m.Obj.Guard = gs
			}
		}
	case *SliceV:
		for _, a := range x.Base.Alts {
			if arr, ok := a.R.(*Cell); ok && arr.Obj.Guard == nil {
				arr.Obj.Guard = gs
			}
		}
	}
}
