package main

// Solver driver: one long-lived solver process (-in), incremental definitions, push/pop per query.
// Any "(error" line or "unknown"/timeout makes the query inconclusive.

import (
	"bufio"
	"fmt"
	"io"
	"os"
	"os/exec"
	"regexp"
	"strconv"
	"strings"
	"time"
)

type Solver struct {
	name    string
	cmd     *exec.Cmd
	in      io.WriteCloser
	out     *bufio.Reader
	pr      *Printer
	Queries int
	Sat     int
	Unsat   int
	Unknown int
	Time    time.Duration
	log     *os.File
	useTac  bool
	hasUF   bool
	dead    bool
	incr    bool // incremental QF_BV mode: plain (check-sat) under push/pop (z3's incremental SAT core)
}

// NewIncrSolver: a z3 process in QF_BV logic answering plain (check-sat) under push/pop; measured 2x
// faster than the tactic pipeline on the feasibility queries of the Exclusive harnesses, with no unknowns.
func NewIncrSolver(logPath string) (*Solver, error) {
	s, err := NewSolver("z3-new", logPath)
	if err != nil {
		return nil, err
	}
	s.incr = true
	s.useTac = false
	s.send("(set-logic QF_BV)\n")
	return s, nil
}

func solverArgs(name string) (string, []string) {
	switch name {
	case "z3":
		return "/usr/bin/z3", []string{"-in"}
	case "cvc5":
		return "/usr/bin/cvc5", []string{"--incremental", "--produce-models", "--lang=smt2"}
	default:
		return "z3-new", []string{"-in"}
	}
}

func NewSolver(name string, logPath string) (*Solver, error) {
	bin, args := solverArgs(name)
	c := exec.Command(bin, args...)
	in, err := c.StdinPipe()
	if err != nil {
		return nil, err
	}
	outp, err := c.StdoutPipe()
	if err != nil {
		return nil, err
	}
	c.Stderr = c.Stdout
	if err := c.Start(); err != nil {
		return nil, err
	}
	s := &Solver{name: name, cmd: c, in: in, out: bufio.NewReaderSize(outp, 1<<20), pr: NewPrinter(), useTac: name != "cvc5"}
	if logPath != "" {
		s.log, _ = os.Create(logPath)
	}
	if name == "cvc5" {
		s.send("(set-logic ALL)\n")
	}
	s.send("(set-option :produce-models true)\n")
	return s, nil
}

func (s *Solver) send(txt string) {
	if s.log != nil {
		s.log.WriteString(txt)
	}
	io.WriteString(s.in, txt)
}

func (s *Solver) Close() {
	if s == nil || s.cmd == nil {
		return
	}
	s.send("(exit)\n")
	s.in.Close()
	done := make(chan struct{})
	go func() { s.cmd.Wait(); close(done) }()
	select {
	case <-done:
	case <-time.After(2 * time.Second):
		s.cmd.Process.Kill()
	}
	if s.log != nil {
		s.log.Close()
	}
}

// readSexp reads one balanced s-expression or atom line from the solver.
func (s *Solver) readResp() (string, error) {
	var sb strings.Builder
	depth := 0
	started := false
	for {
		line, err := s.out.ReadString('\n')
		if err != nil {
			return sb.String(), err
		}
		sb.WriteString(line)
		for _, c := range line {
			if c == '(' {
				depth++
				started = true
			} else if c == ')' {
				depth--
			}
		}
		t := strings.TrimSpace(line)
		if t == "" && !started {
			sb.Reset()
			continue
		}
		if depth <= 0 {
			return sb.String(), nil
		}
	}
}

type QueryResult struct {
	Status string // sat | unsat | unknown | error
	Model  map[string]uint64
	Dur    time.Duration
	Detail string
}

var valRe = regexp.MustCompile(`\(\s*(\|[^|]*\||[^\s()]+)\s+(#x[0-9a-fA-F]+|#b[01]+|true|false)\s*\)`)

// Check decides satisfiability of the conjunction of asserts. timeoutMs applies to this query.
func (s *Solver) Check(asserts []*Term, timeoutMs int, wantModel bool) QueryResult {
	var sb strings.Builder
	s.pr.Emit(&sb, asserts...)
	if len(TS.ufs) > 0 {
		s.hasUF = true
	}
	sb.WriteString("(push 1)\n")
	for _, a := range asserts {
		fmt.Fprintf(&sb, "(assert %s)\n", s.pr.ref(a))
	}
	if s.name != "cvc5" {
		fmt.Fprintf(&sb, "(set-option :timeout %d)\n", timeoutMs)
	}
	if s.useTac && !s.hasUF {
		fmt.Fprintf(&sb, "(check-sat-using (try-for (then simplify propagate-values solve-eqs bit-blast sat) %d))\n", timeoutMs)
	} else {
		sb.WriteString("(check-sat)\n")
	}
	start := time.Now()
	s.send(sb.String())
	res := QueryResult{}
	type rr struct {
		s   string
		err error
	}
	ch := make(chan rr, 1)
	go func() { r, e := s.readResp(); ch <- rr{r, e} }()
	var resp string
	select {
	case r := <-ch:
		resp = r.s
		if r.err != nil {
			res.Status = "error"
			res.Detail = "solver died: " + r.err.Error() + " " + resp
			s.Queries++
			s.Unknown++
			return res
		}
	case <-time.After(time.Duration(timeoutMs+15000) * time.Millisecond):
		s.cmd.Process.Kill()
		go s.cmd.Wait()
		s.dead = true
		res.Status = "unknown"
		res.Detail = "hard timeout; solver killed"
		s.Queries++
		s.Unknown++
		res.Dur = time.Since(start)
		s.Time += res.Dur
		return res
	}
	res.Dur = time.Since(start)
	s.Time += res.Dur
	s.Queries++
	r := strings.TrimSpace(resp)
	switch {
	case strings.Contains(r, "(error"):
		res.Status = "error"
		res.Detail = r
		s.Unknown++
	case r == "sat":
		res.Status = "sat"
		s.Sat++
	case r == "unsat":
		res.Status = "unsat"
		s.Unsat++
	default:
		res.Status = "unknown"
		res.Detail = r
		s.Unknown++
	}
	if res.Status == "sat" && wantModel {
		res.Model = map[string]uint64{}
		// ask for all declared variables in chunks
		var names []string
		for _, v := range TS.vars {
			if s.pr.declVar[v.id] {
				names = append(names, smtName(v.name))
			}
		}
		for i := 0; i < len(names); i += 200 {
			j := i + 200
			if j > len(names) {
				j = len(names)
			}
			s.send("(get-value (" + strings.Join(names[i:j], " ") + "))\n")
			vr, err := s.readResp()
			if err != nil || strings.Contains(vr, "(error") {
				res.Detail += " get-value failed: " + vr
				break
			}
			for _, m := range valRe.FindAllStringSubmatch(vr, -1) {
				n := strings.Trim(m[1], "|")
				var v uint64
				switch {
				case m[2] == "true":
					v = 1
				case m[2] == "false":
					v = 0
				case strings.HasPrefix(m[2], "#x"):
					v, _ = strconv.ParseUint(m[2][2:], 16, 64)
				default:
					v, _ = strconv.ParseUint(m[2][2:], 2, 64)
				}
				res.Model[n] = v
			}
		}
	}
	s.send("(pop 1)\n")
	return res
}
