package main

// Symbolic values and the heap.

import (
	"fmt"
	"go/types"
	"sort"
	"strings"

	"golang.org/x/tools/go/ssa"
)

type Value interface{}

// StructV is a struct, array or tuple by value.
type StructV struct{ F []Value }

// RefV is a reference-like value (pointer, map, chan, func, interface): guarded alternatives.
type RefV struct{ Alts []RefAlt }
type RefAlt struct {
	G *Term
	R Ref
}
type Ref interface{}

type NilRef struct{}

var theNil = NilRef{}

type FuncVal struct {
	Fn       *ssa.Function
	Bindings []Value
	Model    string  // non-empty: modelled function (e.g. "ctx.cancel", "wg.Done")
	Data     []Value // model data (receiver etc.)
	Recv     Value   // bound method receiver (Fn is the method) when HasRecv
	HasRecv  bool
}

type IfaceVal struct {
	T types.Type
	V Value
}

type SliceV struct {
	Base          *RefV // alts of *Cell (array root cell) or nil
	Off, Len, Cap *Term
}

type StrV struct {
	Known bool
	S     string
	ID    *Term // BV64 identity (interned for known strings)
}

// ---------------- cells / objects ----------------

type Object struct {
	ID     int
	Name   string
	Root   *Cell
	Guard  *GuardSpec // lock discipline taint (maps, arrays reached through guarded fields)
	Local  bool
	IsMap  bool
	IsChan bool
}

type GuardSpec struct {
	Mu        *Cell // mutex cell
	RW        bool
	Field     string
	WriteOnly bool
}

type Cell struct {
	T     types.Type
	Val   Value
	Kids  []*Cell
	Obj   *Object
	Path  string
	Guard *GuardSpec
	// TryObserved: a Try* operation exists on this mutex somewhere in the package, so its
	// Unlock is a visible operation
	TryObserved bool
}

type MapEntry struct {
	Key     Value
	Val     *Cell
	Present *Term
}

type MapObj struct {
	Obj     *Object
	T       *types.Map
	Entries []*MapEntry
}

type ChanObj struct {
	Obj    *Object
	T      types.Type // element type
	Cap    int
	Buf    []*Cell // Cap cells (buffered) or 1 cell (unbuffered rendezvous slot)
	Count  *Cell   // BV64: number of buffered items (buffered) / slot state (unbuffered: 0 empty, 1 full, 2 taken)
	Closed *Cell   // Bool
	Kind   string  // "", "ctxdone", "timer", "ticker"
	Ctx    *CtxObj // for ctxdone
	Extra  *Cell   // timer/ticker: armed flag (Bool)
}

var objCounter int

func newObject(name string) *Object {
	objCounter++
	return &Object{ID: objCounter, Name: name}
}

func isAggregate(t types.Type) bool {
	switch t.Underlying().(type) {
	case *types.Struct, *types.Array:
		return true
	}
	return false
}

func newCell(t types.Type, obj *Object, path string) *Cell {
	c := &Cell{T: t, Obj: obj, Path: path}
	switch u := t.Underlying().(type) {
	case *types.Struct:
		for i := 0; i < u.NumFields(); i++ {
			c.Kids = append(c.Kids, newCell(u.Field(i).Type(), obj, path+"."+u.Field(i).Name()))
		}
	case *types.Array:
		for i := 0; i < int(u.Len()); i++ {
			c.Kids = append(c.Kids, newCell(u.Elem(), obj, fmt.Sprintf("%s[%d]", path, i)))
		}
	default:
		c.Val = zeroValue(t)
	}
	return c
}

func newArrayCell(elem types.Type, n int, obj *Object, path string) *Cell {
	c := &Cell{T: types.NewArray(elem, int64(n)), Obj: obj, Path: path}
	for i := 0; i < n; i++ {
		c.Kids = append(c.Kids, newCell(elem, obj, fmt.Sprintf("%s[%d]", path, i)))
	}
	return c
}

func widthOf(t types.Type) int {
	switch u := t.Underlying().(type) {
	case *types.Basic:
		switch u.Kind() {
		case types.Bool, types.UntypedBool:
			return 0
		case types.Int, types.Uint, types.Uintptr, types.Int64, types.Uint64, types.UntypedInt:
			return 64
		case types.Int32, types.Uint32, types.UntypedRune:
			return 32
		case types.Int16, types.Uint16:
			return 16
		case types.Int8, types.Uint8:
			return 8
		case types.Float64, types.UntypedFloat:
			return 64 // floats are carried as opaque bit patterns; arithmetic on them is unsupported
		case types.Float32:
			return 32
		}
	}
	return -1
}

func isSigned(t types.Type) bool {
	if b, ok := t.Underlying().(*types.Basic); ok {
		return b.Info()&types.IsUnsigned == 0 && b.Info()&types.IsInteger != 0
	}
	return false
}

func nilRef() *RefV { return &RefV{Alts: []RefAlt{{TS.True, theNil}}} }

func refTo(r Ref) *RefV { return &RefV{Alts: []RefAlt{{TS.True, r}}} }

func zeroValue(t types.Type) Value {
	switch u := t.Underlying().(type) {
	case *types.Basic:
		if u.Info()&types.IsString != 0 {
			return mkStr("")
		}
		w := widthOf(t)
		if w == 0 {
			return TS.False
		}
		if w > 0 {
			return BV(0, w)
		}
		if u.Kind() == types.UntypedNil || u.Kind() == types.UnsafePointer {
			return nilRef()
		}
		if u.Kind() == types.Invalid {
			return TS.False // unused tuple component
		}
		panic(fmt.Sprintf("zeroValue: unsupported basic %v", t))
	case *types.Struct:
		s := &StructV{}
		for i := 0; i < u.NumFields(); i++ {
			s.F = append(s.F, zeroValue(u.Field(i).Type()))
		}
		return s
	case *types.Array:
		s := &StructV{}
		for i := 0; i < int(u.Len()); i++ {
			s.F = append(s.F, zeroValue(u.Elem()))
		}
		return s
	case *types.Slice:
		return &SliceV{Base: nilRef(), Off: BV(0, 64), Len: BV(0, 64), Cap: BV(0, 64)}
	case *types.Tuple:
		s := &StructV{}
		for i := 0; i < u.Len(); i++ {
			s.F = append(s.F, zeroValue(u.At(i).Type()))
		}
		return s
	case *types.Pointer, *types.Map, *types.Chan, *types.Signature, *types.Interface:
		return nilRef()
	case *types.TypeParam:
		panic("zeroValue of type parameter (generic not instantiated)")
	}
	panic(fmt.Sprintf("zeroValue: unsupported type %v", t))
}

// ---------------- strings ----------------

var strIntern = map[string]uint64{}

func mkStr(s string) *StrV {
	id, ok := strIntern[s]
	if !ok {
		id = uint64(len(strIntern)) + 1
		if s == "" {
			id = 0
		}
		strIntern[s] = id
	}
	return &StrV{Known: true, S: s, ID: BV(id, 64)}
}

var symStrCounter int

func symStr(hint string) *StrV {
	symStrCounter++
	// unknown strings get ids in the upper half so they never collide with interned constants
	return &StrV{Known: false, S: hint, ID: BV(uint64(1)<<62+uint64(symStrCounter), 64)}
}

// CondV stands for ite(C, A, B) over values of different shapes (only produced when a guarded store
// overwrites a value of another kind, e.g. an untyped zero cell); consumers resolve it under their guard.
type CondV struct {
	C    *Term
	A, B Value
}

// resolveCond picks the branch of a CondV that is consistent with guard g (syntactically).
func resolveCond(v Value, g *Term) Value {
	for {
		cv, ok := v.(*CondV)
		if !ok {
			return v
		}
		if x := And(g, Not(cv.C)); x.IsFalse() || semFalse(x) {
			v = cv.A
		} else if y := And(g, cv.C); y.IsFalse() || semFalse(y) {
			v = cv.B
		} else {
			panic(Inconclusive{"value of mixed shape could not be resolved under the path guard: C=" + cv.C.String() + " G=" + g.String() + " A=" + valStr(cv.A) + " B=" + valStr(cv.B)})
		}
	}
}

// ---------------- merge (ite) ----------------

func iteValue(c *Term, a, b Value) Value {
	if c.IsTrue() {
		return a
	}
	if c.IsFalse() {
		return b
	}
	if a == nil {
		return b
	}
	if b == nil {
		return a
	}
	if fmt.Sprintf("%T", a) != fmt.Sprintf("%T", b) {
		return &CondV{C: c, A: a, B: b}
	}
	switch x := a.(type) {
	case *CondV:
		return &CondV{C: c, A: a, B: b}
	case *Term:
		y := b.(*Term)
		if x.w != y.w {
			return &CondV{C: c, A: a, B: b}
		}
		return Ite(c, x, y)
	case *StructV:
		y := b.(*StructV)
		if x == y {
			return x
		}
		if len(x.F) != len(y.F) {
			panic("iteValue: struct arity mismatch")
		}
		r := &StructV{F: make([]Value, len(x.F))}
		same := true
		for i := range x.F {
			r.F[i] = iteValue(c, x.F[i], y.F[i])
			if r.F[i] != x.F[i] {
				same = false
			}
		}
		if same {
			return x
		}
		return r
	case *RefV:
		y := b.(*RefV)
		if x == y {
			return x
		}
		return mergeRefs(c, x, y)
	case *SliceV:
		y := b.(*SliceV)
		if x == y {
			return x
		}
		return &SliceV{Base: mergeRefs(c, x.Base, y.Base), Off: Ite(c, x.Off, y.Off), Len: Ite(c, x.Len, y.Len), Cap: Ite(c, x.Cap, y.Cap)}
	case *StrV:
		y := b.(*StrV)
		if x == y || (x.Known && y.Known && x.S == y.S) {
			return x
		}
		return &StrV{Known: false, S: "ite", ID: Ite(c, x.ID, y.ID)}
	case *IterV:
		y := b.(*IterV)
		if x == y {
			return x
		}
		if x.M != y.M {
			panic("iteValue: iterators over different maps")
		}
		mp := x.MinPos
		if y.MinPos < mp {
			mp = y.MinPos
		}
		return &IterV{M: x.M, Pos: Ite(c, x.Pos, y.Pos), MinPos: mp}
	}
	panic(fmt.Sprintf("iteValue: unsupported %T", a))
}

func sameRef(a, b Ref) bool {
	switch x := a.(type) {
	case NilRef:
		_, ok := b.(NilRef)
		return ok
	case *Cell:
		y, ok := b.(*Cell)
		return ok && x == y
	case *MapObj:
		y, ok := b.(*MapObj)
		return ok && x == y
	case *ChanObj:
		y, ok := b.(*ChanObj)
		return ok && x == y
	case *CtxObj:
		y, ok := b.(*CtxObj)
		return ok && x == y
	case *TypeRef:
		y, ok := b.(*TypeRef)
		return ok && x == y
	case *FuncVal:
		y, ok := b.(*FuncVal)
		if !ok {
			return false
		}
		if x == y {
			return true
		}
		// structurally identical closures are handled in mergeRefs
		return false
	case *IfaceVal:
		return false
	}
	return false
}

func mergeRefs(c *Term, a, b *RefV) *RefV {
	out := &RefV{}
	add := func(g *Term, r Ref) {
		if g.IsFalse() {
			return
		}
		for i := range out.Alts {
			o := out.Alts[i].R
			if sameRef(o, r) {
				out.Alts[i].G = Or(out.Alts[i].G, g)
				return
			}
			if fo, ok := o.(*FuncVal); ok {
				if fr, ok := r.(*FuncVal); ok && fo.Fn == fr.Fn && fo.Model == fr.Model && len(fo.Bindings) == len(fr.Bindings) && len(fo.Data) == len(fr.Data) && fo.HasRecv == fr.HasRecv && (fo.Model == "" || sameValues(fo.Data, fr.Data)) {
					// merge bindings pointwise
					n := &FuncVal{Fn: fo.Fn, Model: fo.Model, HasRecv: fo.HasRecv}
					og := out.Alts[i].G
					for k := range fo.Bindings {
						n.Bindings = append(n.Bindings, iteValue(g, fr.Bindings[k], fo.Bindings[k]))
					}
					for k := range fo.Data {
						n.Data = append(n.Data, iteValue(g, fr.Data[k], fo.Data[k]))
					}
					if fo.HasRecv {
						n.Recv = iteValue(g, fr.Recv, fo.Recv)
					}
					out.Alts[i] = RefAlt{Or(og, g), n}
					return
				}
			}
			if io, ok := o.(*IfaceVal); ok {
				if ir, ok := r.(*IfaceVal); ok && types.Identical(io.T, ir.T) && (io.T != rtypeModelType || refIdent(io) == refIdent(ir)) {
					og := out.Alts[i].G
					out.Alts[i] = RefAlt{Or(og, g), &IfaceVal{T: io.T, V: iteValue(g, ir.V, io.V)}}
					return
				}
			}
		}
		out.Alts = append(out.Alts, RefAlt{g, r})
	}
	for _, x := range a.Alts {
		add(And(c, x.G), x.R)
	}
	nc := Not(c)
	for _, y := range b.Alts {
		add(And(nc, y.G), y.R)
	}
	if len(out.Alts) == 0 {
		return nilRef()
	}
	return out
}

// restrictRef drops alternatives whose guard is inconsistent with g syntactically.
func pruneRef(r *RefV) *RefV {
	var alts []RefAlt
	for _, a := range r.Alts {
		if !a.G.IsFalse() {
			alts = append(alts, a)
		}
	}
	if len(alts) == len(r.Alts) {
		return r
	}
	return &RefV{Alts: alts}
}

// ---------------- equality ----------------

func eqValue(a, b Value) *Term {
	switch x := a.(type) {
	case *Term:
		y, ok := b.(*Term)
		if !ok || y.w != x.w {
			return TS.False
		}
		return Eq(x, y)
	case *StructV:
		y, ok := b.(*StructV)
		if !ok || len(y.F) != len(x.F) {
			return TS.False
		}
		var cs []*Term
		for i := range x.F {
			cs = append(cs, eqValue(x.F[i], y.F[i]))
		}
		return And(cs...)
	case *StrV:
		y := b.(*StrV)
		if x.Known && y.Known {
			return BoolT(x.S == y.S)
		}
		return Eq(x.ID, y.ID)
	case *RefV:
		y, ok := b.(*RefV)
		if !ok {
			return TS.False
		}
		var cs []*Term
		for _, p := range x.Alts {
			for _, q := range y.Alts {
				g := And(p.G, q.G)
				if g.IsFalse() {
					continue
				}
				cs = append(cs, And(g, eqRef(p.R, q.R)))
			}
		}
		return Or(cs...)
	case *SliceV:
		// only comparison with nil is legal in Go
		y := b.(*SliceV)
		return And(eqValue(x.Base, y.Base))
	}
	panic(fmt.Sprintf("eqValue: unsupported %T", a))
}

func eqRef(a, b Ref) *Term {
	switch x := a.(type) {
	case NilRef:
		_, ok := b.(NilRef)
		return BoolT(ok)
	case *IfaceVal:
		y, ok := b.(*IfaceVal)
		if !ok {
			return TS.False
		}
		if !types.Identical(x.T, y.T) {
			return TS.False
		}
		return eqValue(x.V, y.V)
	case *FuncVal:
		y, ok := b.(*FuncVal)
		return BoolT(ok && x == y)
	default:
		if _, ok := b.(NilRef); ok {
			return TS.False
		}
		return BoolT(sameRef(a, b))
	}
}

func isNilTerm(r *RefV) *Term {
	var cs []*Term
	for _, a := range r.Alts {
		if _, ok := a.R.(NilRef); ok {
			cs = append(cs, a.G)
		}
	}
	return Or(cs...)
}

// ---------------- load / store ----------------

func loadCell(c *Cell) Value {
	if c.Kids != nil || isAggregate(c.T) {
		s := &StructV{F: make([]Value, len(c.Kids))}
		for i, k := range c.Kids {
			s.F[i] = loadCell(k)
		}
		return s
	}
	return c.Val
}

func storeCell(c *Cell, v Value, g *Term) {
	if g.IsFalse() {
		return
	}
	if c.Kids != nil || isAggregate(c.T) {
		s, ok := v.(*StructV)
		if !ok {
			panic(fmt.Sprintf("storeCell: aggregate cell %s gets %T", c.Path, v))
		}
		if len(s.F) != len(c.Kids) {
			panic(fmt.Sprintf("storeCell: arity mismatch at %s: %d vs %d", c.Path, len(s.F), len(c.Kids)))
		}
		for i, k := range c.Kids {
			storeCell(k, s.F[i], g)
		}
		return
	}
	c.Val = iteValue(g, v, c.Val)
}

// ---------------- debugging ----------------

func valStr(v Value) string {
	switch x := v.(type) {
	case nil:
		return "<nil>"
	case *Term:
		return x.String()
	case *StructV:
		var parts []string
		for _, f := range x.F {
			parts = append(parts, valStr(f))
		}
		return "{" + strings.Join(parts, ", ") + "}"
	case *RefV:
		var parts []string
		for _, a := range x.Alts {
			parts = append(parts, fmt.Sprintf("[%s]%s", a.G.String(), refStr(a.R)))
		}
		sort.Strings(parts)
		return "ref(" + strings.Join(parts, " | ") + ")"
	case *SliceV:
		return fmt.Sprintf("slice(%s off=%s len=%s cap=%s)", valStr(x.Base), x.Off, x.Len, x.Cap)
	case *StrV:
		if x.Known {
			return fmt.Sprintf("%q", x.S)
		}
		return "str(" + x.ID.String() + ")"
	}
	return fmt.Sprintf("%T", v)
}

func refStr(r Ref) string {
	switch x := r.(type) {
	case NilRef:
		return "nil"
	case *Cell:
		return "&" + x.Obj.Name + x.Path
	case *MapObj:
		return "map:" + x.Obj.Name
	case *ChanObj:
		return "chan:" + x.Obj.Name
	case *CtxObj:
		return "ctx:" + x.Name
	case *TypeRef:
		return "type:" + x.T.String()
	case *FuncVal:
		if x.Fn != nil {
			return "func:" + x.Fn.String()
		}
		return "func:" + x.Model
	case *IfaceVal:
		return fmt.Sprintf("iface(%v: %s)", x.T, valStr(x.V))
	}
	return fmt.Sprintf("%T", r)
}

// refIdent gives a stable identity string for a reference (used in merge keys).
func refIdent(r Ref) string {
	switch x := r.(type) {
	case NilRef:
		return "nil"
	case *Cell:
		return fmt.Sprintf("c%p", x)
	case *MapObj:
		return fmt.Sprintf("m%d", x.Obj.ID)
	case *ChanObj:
		return fmt.Sprintf("ch%d", x.Obj.ID)
	case *CtxObj:
		return fmt.Sprintf("cx%d", x.Obj.ID)
	case *TypeRef:
		return "t" + x.T.String()
	case *FuncVal:
		if x.Fn != nil {
			return fmt.Sprintf("f%p", x.Fn)
		}
		id := "fm" + x.Model
		for _, d := range x.Data {
			switch dv := d.(type) {
			case *RefV:
				for _, a := range dv.Alts {
					id += ":" + refIdent(a.R)
				}
			case *Term:
				id += fmt.Sprintf(":t%d", dv.id)
			}
		}
		return id
	case *IfaceVal:
		s := "i(" + types.TypeString(x.T, nil) + ":"
		if rv, ok := x.V.(*RefV); ok {
			for _, a := range rv.Alts {
				s += refIdent(a.R) + ","
			}
		}
		return s + ")"
	}
	return fmt.Sprintf("%T", r)
}

// sameValues: syntactic identity of value lists (model function data must not be merged pointwise).
func sameValues(a, b []Value) bool {
	if len(a) != len(b) {
		return false
	}
	for i := range a {
		if a[i] == b[i] {
			continue
		}
		ra, ok1 := a[i].(*RefV)
		rb, ok2 := b[i].(*RefV)
		if ok1 && ok2 && len(ra.Alts) == 1 && len(rb.Alts) == 1 && ra.Alts[0].G == rb.Alts[0].G && sameRef(ra.Alts[0].R, rb.Alts[0].R) {
			continue
		}
		return false
	}
	return true
}
