package main

import (
	"fmt"
	"go/token"
	"go/types"
	"os"
	"sort"
	"strings"

	"golang.org/x/tools/go/ssa"
)

// exec executes one instruction of the top frame. Returns false if c was consumed (queued/rested/dropped).
func (e *Engine) exec(c *Config, f *Frame, ins ssa.Instruction, rest func(c *Config)) bool {
	switch x := ins.(type) {
	case *ssa.DebugRef:
		f.idx++
	case *ssa.Alloc:
		// every dynamic allocation has its own name (site + iteration vector), so the object is zero
		// when first reached on any path
		var cell *Cell
		if !x.Heap {
			// a non-escaping local dies with its activation / loop iteration: the same object is reused
			// (re-zeroed under the path guard) and does not count as a naming event for loop epochs
			cell = e.allocLocal(c, x.Type().(*types.Pointer).Elem())
			storeCell(cell, zeroValue(cell.T), c.g)
		} else {
			cell = e.allocCell(c, x.Type().(*types.Pointer).Elem(), "alloc")
		}
		f.regs[x] = refTo(cell)
		f.idx++
	case *ssa.Store:
		e.store(c, e.get(f, x.Addr), e.get(f, x.Val))
		f.idx++
	case *ssa.UnOp:
		if x.Op == token.ARROW {
			return e.execRecv(c, f, x, rest)
		}
		f.regs[x] = e.unop(c, f, x)
		f.idx++
	case *ssa.BinOp:
		f.regs[x] = e.binop(c, x.Op, e.get(f, x.X), e.get(f, x.Y), x.X.Type(), x.Type())
		f.idx++
	case *ssa.Convert:
		f.regs[x] = e.convert(e.get(f, x.X), x.X.Type(), x.Type())
		f.idx++
	case *ssa.ChangeType:
		f.regs[x] = e.get(f, x.X)
		f.idx++
	case *ssa.MultiConvert:
		inconclusive("MultiConvert unsupported")
	case *ssa.ChangeInterface:
		f.regs[x] = e.get(f, x.X)
		f.idx++
	case *ssa.MakeInterface:
		f.regs[x] = refTo(&IfaceVal{T: x.X.Type(), V: e.get(f, x.X)})
		f.idx++
	case *ssa.TypeAssert:
		f.regs[x] = e.typeAssert(c, x, e.get(f, x.X).(*RefV))
		f.idx++
	case *ssa.FieldAddr:
		p := e.get(f, x.X).(*RefV)
		out := &RefV{}
		e.raise(c, isNilTerm(p), "nil pointer dereference")
		for _, a := range p.Alts {
			cell, ok := a.R.(*Cell)
			if !ok {
				continue
			}
			if x.Field >= len(cell.Kids) {
				inconclusive("FieldAddr on non-struct cell %s (%v)", cell.Path, cell.T)
			}
			out.Alts = append(out.Alts, RefAlt{a.G, cell.Kids[x.Field]})
		}
		f.regs[x] = out
		f.idx++
	case *ssa.Field:
		s := e.get(f, x.X).(*StructV)
		f.regs[x] = s.F[x.Field]
		f.idx++
	case *ssa.IndexAddr:
		f.regs[x] = e.indexAddr(c, e.get(f, x.X), e.get(f, x.Index).(*Term), x.Index.Type())
		f.idx++
	case *ssa.Index:
		f.regs[x] = e.indexValue(c, e.get(f, x.X), e.get(f, x.Index).(*Term), x.Index.Type())
		f.idx++
	case *ssa.Slice:
		f.regs[x] = e.sliceOp(c, f, x)
		f.idx++
	case *ssa.MakeSlice:
		ln := e.get(f, x.Len).(*Term)
		cp := e.get(f, x.Cap).(*Term)
		ln = toW(ln, 64, isSigned(x.Len.Type()))
		cp = toW(cp, 64, isSigned(x.Cap.Type()))
		var n int
		if !cp.IsConst() {
			// symbolic capacity: allocate a bounded backing array; exceeding the bound is an unwinding failure
			if ub, ok := upperBound(cp); ok && ub <= 64 {
				n = ub
			} else {
				n = e.maxSlice
				over := Not(Ule(cp, BV(uint64(n), 64)))
				e.unwindFail = Or(e.unwindFail, And(c.g, over))
				e.unwindWhere["make-slice bound "+e.posOf(c)] = true
				c.g = And(c.g, Not(over))
			}
		} else {
			n = int(cp.val)
		}
		if n > 4096 {
			inconclusive("MakeSlice too large: %d", n)
		}
		e.raise(c, Or(Slt(ln, BV(0, 64)), Slt(cp, ln)), "makeslice: len out of range")
		arr := e.allocArray(c, x.Type().Underlying().(*types.Slice).Elem(), n, "makeslice")
		f.regs[x] = &SliceV{Base: refTo(arr), Off: BV(0, 64), Len: ln, Cap: cp}
		f.idx++
	case *ssa.MakeMap:
		m := e.allocMap(c, x.Type().Underlying().(*types.Map))
		f.regs[x] = refTo(m)
		f.idx++
	case *ssa.MakeChan:
		sz := e.get(f, x.Size).(*Term)
		if !sz.IsConst() {
			inconclusive("MakeChan with symbolic size")
		}
		ch := e.allocChan(c, x.Type().Underlying().(*types.Chan).Elem(), int(sz.val))
		f.regs[x] = refTo(ch)
		f.idx++
	case *ssa.MakeClosure:
		fv := &FuncVal{Fn: x.Fn.(*ssa.Function)}
		for _, b := range x.Bindings {
			fv.Bindings = append(fv.Bindings, e.get(f, b))
		}
		f.regs[x] = refTo(fv)
		f.idx++
	case *ssa.Lookup:
		f.regs[x] = e.lookup(c, f, x)
		f.idx++
	case *ssa.MapUpdate:
		e.mapUpdate(c, e.get(f, x.Map).(*RefV), e.get(f, x.Key), e.get(f, x.Value))
		f.idx++
	case *ssa.Range:
		mv := e.get(f, x.X)
		r, ok := mv.(*RefV)
		if !ok {
			inconclusive("range over non-map unsupported (%T)", mv)
		}
		_ = r
		r, single := e.concretizeReg(c, f, x.X)
		if !single {
			return false
		}
		switch m := r.Alts[0].R.(type) {
		case *MapObj:
			e.checkObjGuard(c, m.Obj, false)
			e.foot.read(m.Obj, c.g)
			f.regs[x] = &IterV{M: m, Pos: BV(0, 16)}
		case NilRef:
			f.regs[x] = &IterV{M: nil, Pos: BV(0, 16)}
		default:
			inconclusive("range over %T", m)
		}
		f.idx++
	case *ssa.Next:
		if x.IsString {
			inconclusive("range over string unsupported")
		}
		f.regs[x] = e.mapNext(c, f, x)
		f.idx++
	case *ssa.Extract:
		t := e.get(f, x.Tuple).(*StructV)
		f.regs[x] = t.F[x.Index]
		f.idx++
	case *ssa.Phi:
		inconclusive("phi executed directly")
	case *ssa.Jump:
		return e.jumpYield(c, f, f.blk.Succs[0])
	case *ssa.If:
		cond := e.get(f, x.Cond).(*Term)
		if cond.IsTrue() {
			return e.jumpYield(c, f, f.blk.Succs[0])
		}
		if cond.IsFalse() {
			return e.jumpYield(c, f, f.blk.Succs[1])
		}
		if os.Getenv("VERIF_DEBUGIF") != "" && strings.Contains(f.fn.Name(), os.Getenv("VERIF_DEBUGIF")) {
			fmt.Fprintf(os.Stderr, "IF step=%d g%d %s b%d loops=%v: %s\n", e.step, c.gor.idx, f.fn.Name(), f.blk.Index, f.loops, cond.String())
		}
		ct, cf := e.split(c, cond)
		if ct != nil {
			if e.jump(ct, ct.top(), ct.top().blk.Succs[0]) {
				e.enqueue(ct)
			}
		}
		if cf != nil {
			if e.jump(cf, cf.top(), cf.top().blk.Succs[1]) {
				e.enqueue(cf)
			}
		}
		return false
	case *ssa.Return:
		var res Value
		switch len(x.Results) {
		case 0:
		case 1:
			res = e.get(f, x.Results[0])
		default:
			s := &StructV{}
			for _, r := range x.Results {
				s.F = append(s.F, e.get(f, r))
			}
			res = s
		}
		e.doReturnFrom(c, res)
		if len(e.work) > 0 && !c.g.IsFalse() {
			// potential join of callee paths: let the worklist order decide
			e.enqueue(c)
			return false
		}
	case *ssa.RunDefers:
		if len(f.defers) > 0 {
			d := f.defers[len(f.defers)-1]
			f.defers = f.defers[:len(f.defers)-1]
			e.invokeDeferred(c, d)
			return false
		}
		f.idx++
	case *ssa.Panic:
		e.raiseVal(c, e.get(f, x.X))
	case *ssa.Defer:
		d := &DeferRec{Common: &x.Call, Pos: x.Pos()}
		if !x.Call.IsInvoke() {
			switch x.Call.Value.(type) {
			case *ssa.Builtin, *ssa.Function:
			default:
				d.Fn = e.get(f, x.Call.Value)
			}
		} else {
			d.Fn = e.get(f, x.Call.Value)
		}
		for _, a := range x.Call.Args {
			d.Args = append(d.Args, e.get(f, a))
		}
		f.defers = append(f.defers, d)
		f.idx++
	case *ssa.Go:
		if !e.execGo(c, f, x) {
			return false
		}
		f.idx++
	case *ssa.Call:
		return e.execCall(c, f, x, rest)
	case *ssa.Send:
		return e.execSend(c, f, x, rest)
	case *ssa.Select:
		return e.execSelect(c, f, x, rest)
	default:
		inconclusive("unsupported instruction %T (%v) in %s", ins, ins, f.fn)
	}
	return true
}

func (e *Engine) doReturnFrom(c *Config, res Value) {
	f := c.top()
	if f.onReturn != nil {
		h := f.onReturn
		c.stack = c.stack[:len(c.stack)-1]
		h(e, c, res)
		return
	}
	e.doReturn(c, res)
}

// concretizeReg forks c so that the reference held by v has a single alternative in each resulting
// config (queued at the same instruction). Returns (ref, true) when it already is single.
func (e *Engine) concretizeReg(c *Config, f *Frame, v ssa.Value) (*RefV, bool) {
	orig := e.get(f, v).(*RefV)
	r := pruneRefUnder(orig, c.g)
	if len(r.Alts) == 1 {
		if len(orig.Alts) != 1 || !orig.Alts[0].G.IsTrue() {
			// normalise: keep only the live alternative in the register, so that later guard changes
			// (merging, resting) cannot resurrect a dead one
			one := &RefV{Alts: []RefAlt{{TS.True, r.Alts[0].R}}}
			switch vv := v.(type) {
			case *ssa.FreeVar:
				nb := append([]Value(nil), f.bindings...)
				for i, x := range f.fn.FreeVars {
					if x == vv {
						nb[i] = one
					}
				}
				f.bindings = nb
			case *ssa.Const, *ssa.Global, *ssa.Function:
			default:
				f.regs[v] = one
			}
			tag := refIdent(r.Alts[0].R) + ";"

			if !(f.opTagBlk == f.blk.Index && f.opTagIdx == f.idx && strings.Contains(f.opTag, tag)) {
				if !(f.opTagBlk == f.blk.Index && f.opTagIdx == f.idx) {
					f.opTag = ""
				}
				f.opTag += tag
				f.opTagBlk, f.opTagIdx = f.blk.Index, f.idx
			}
			return one, true
		}
		return r, true
	}
	if len(r.Alts) == 0 {
		c.g = TS.False
		return nil, false
	}
	for _, a := range r.Alts {
		n := c.clone()
		n.g = And(c.g, a.G)
		one := &RefV{Alts: []RefAlt{{TS.True, a.R}}}
		nf := n.top()
		if !(nf.opTagBlk == nf.blk.Index && nf.opTagIdx == nf.idx) {
			nf.opTag = ""
		}
		nf.opTag += refIdent(a.R) + ";"

		nf.opTagBlk, nf.opTagIdx = nf.blk.Index, nf.idx
		if fv, ok := v.(*ssa.FreeVar); ok {
			nb := append([]Value(nil), nf.bindings...)
			for i, x := range nf.fn.FreeVars {
				if x == fv {
					nb[i] = one
				}
			}
			nf.bindings = nb
		} else {
			nf.regs[v] = one
		}
		e.enqueue(n)
	}
	c.g = TS.False
	return nil, false
}

func pruneRefUnder(r *RefV, g *Term) *RefV {
	var alts []RefAlt
	for _, a := range r.Alts {
		if ag := And(a.G, g); ag.IsFalse() || semFalse(ag) {
			continue
		}
		alts = append(alts, a)
	}
	if len(alts) == len(r.Alts) {
		return r
	}
	return &RefV{Alts: alts}
}

// ---------------- memory ----------------

func (e *Engine) load(c *Config, addr Value) Value {
	p := addr.(*RefV)
	e.raise(c, isNilTerm(p), "nil pointer dereference")
	var res Value
	first := true
	for i := len(p.Alts) - 1; i >= 0; i-- {
		a := p.Alts[i]
		cell, ok := a.R.(*Cell)
		if !ok {
			continue
		}
		if And(a.G, c.g).IsFalse() {
			continue
		}
		e.checkCellGuard(c, cell, false, a.G)
		e.foot.read(cell.Obj, And(c.g, a.G))
		v := loadCell(cell)
		if first {
			res = v
			first = false
		} else {
			res = iteValue(a.G, v, res)
		}
	}
	if first {
		// only nil alternatives: the config is panicking entirely; return a dummy
		c.g = TS.False
		return nil
	}
	return res
}

func (e *Engine) store(c *Config, addr Value, v Value) {
	p := addr.(*RefV)
	e.raise(c, isNilTerm(p), "nil pointer dereference")
	for _, a := range p.Alts {
		cell, ok := a.R.(*Cell)
		if !ok {
			continue
		}
		g := And(c.g, a.G)
		if g.IsFalse() {
			continue
		}
		e.checkCellGuard(c, cell, true, a.G)
		e.foot.write(cell.Obj, g)
		storeCell(cell, v, g)
		e.taint(cell, v)
	}
}

func (e *Engine) unop(c *Config, f *Frame, x *ssa.UnOp) Value {
	v := e.get(f, x.X)
	switch x.Op {
	case token.MUL:
		r := e.load(c, v)
		if r == nil {
			return zeroValue(x.Type())
		}
		r = resolveDeep(r, c.g)
		// restrict the loaded value to the current path: ite(g', a, b) with g' decided by the guard
		switch rv := r.(type) {
		case *Term:
			return restrictTerm(rv, c.g)
		case *RefV:
			return pruneRefUnder(rv, c.g)
		}
		return r
	case token.NOT:
		return Not(v.(*Term))
	case token.SUB:
		return Neg(v.(*Term))
	case token.XOR:
		return BvNot(v.(*Term))
	}
	inconclusive("unsupported unop %v", x.Op)
	return nil
}

func toW(t *Term, w int, signed bool) *Term {
	if t.w == w {
		return t
	}
	if t.w > w {
		return Extract(t, w-1, 0)
	}
	if signed {
		return Sext(t, w)
	}
	return Zext(t, w)
}

func (e *Engine) binop(c *Config, op token.Token, a, b Value, xt types.Type, rt types.Type) Value {
	switch op {
	case token.EQL:
		return e.eqv(a, b)
	case token.NEQ:
		return Not(e.eqv(a, b))
	}
	if sa, ok := a.(*StrV); ok {
		sb := b.(*StrV)
		switch op {
		case token.ADD:
			if sa.Known && sb.Known {
				return mkStr(sa.S + sb.S)
			}
			return symStr("concat")
		}
		inconclusive("unsupported string op %v", op)
	}
	x, ok := a.(*Term)
	if !ok {
		inconclusive("binop %v on %T", op, a)
	}
	y := b.(*Term)
	signed := isSigned(xt)
	if x.w == 0 {
		switch op {
		case token.AND, token.LAND:
			return And(x, y)
		case token.OR, token.LOR:
			return Or(x, y)
		case token.XOR:
			return Not(Eq(x, y))
		}
		inconclusive("bool binop %v", op)
	}
	switch op {
	case token.ADD:
		return Add(x, y)
	case token.SUB:
		return Sub(x, y)
	case token.MUL:
		return Mul(x, y)
	case token.QUO, token.REM:
		e.raise(c, Eq(y, BV(0, y.w)), "integer divide by zero")
		var o Op
		switch {
		case op == token.QUO && signed:
			o = OpSdiv
		case op == token.QUO:
			o = OpUdiv
		case signed:
			o = OpSrem
		default:
			o = OpUrem
		}
		return binBV(o, x, y)
	case token.AND:
		return BvAnd(x, y)
	case token.OR:
		return BvOr(x, y)
	case token.XOR:
		return BvXor(x, y)
	case token.AND_NOT:
		return BvAnd(x, BvNot(y))
	case token.SHL, token.SHR:
		// shift amount is unsigned (or a non-negative signed value: negative panics)
		amt := y
		if amt.w < x.w {
			amt = Zext(amt, x.w)
		} else if amt.w > x.w {
			// shifts >= width give 0 / sign fill; clamp
			big := Not(Ult(amt, BV(uint64(x.w), amt.w)))
			amt = Ite(big, BV(uint64(x.w), x.w), Extract(amt, x.w-1, 0))
		}
		if op == token.SHL {
			return Shl(x, amt)
		}
		if signed {
			return Ashr(x, amt)
		}
		return Lshr(x, amt)
	case token.LSS:
		if signed {
			return Slt(x, y)
		}
		return Ult(x, y)
	case token.LEQ:
		if signed {
			return Sle(x, y)
		}
		return Ule(x, y)
	case token.GTR:
		if signed {
			return Slt(y, x)
		}
		return Ult(y, x)
	case token.GEQ:
		if signed {
			return Sle(y, x)
		}
		return Ule(y, x)
	}
	inconclusive("unsupported binop %v", op)
	return nil
}

func (e *Engine) eqv(a, b Value) *Term {
	return eqValue(a, b)
}

func (e *Engine) convert(v Value, from, to types.Type) Value {
	fu, tu := from.Underlying(), to.Underlying()
	if _, ok := tu.(*types.Basic); ok {
		if t, ok := v.(*Term); ok {
			tw := widthOf(to)
			if tw < 0 {
				inconclusive("convert to %v", to)
			}
			if fb, ok := fu.(*types.Basic); ok && (fb.Info()&types.IsFloat != 0) != (tu.(*types.Basic).Info()&types.IsFloat != 0) {
				inconclusive("float conversion unsupported")
			}
			if tw == 0 || t.w == 0 {
				return t
			}
			return toW(t, tw, isSigned(from))
		}
		if s, ok := v.(*StrV); ok {
			return s
		}
	}
	if _, ok := tu.(*types.Pointer); ok {
		return v
	}
	if _, ok := tu.(*types.Slice); ok {
		if _, ok := v.(*SliceV); ok {
			return v
		}
	}
	inconclusive("unsupported conversion %v -> %v", from, to)
	return nil
}

func (e *Engine) typeAssert(c *Config, x *ssa.TypeAssert, r *RefV) Value {
	at := x.AssertedType
	_, toIface := at.Underlying().(*types.Interface)
	var okT []*Term
	var res Value
	for _, a := range r.Alts {
		if And(a.G, c.g).IsFalse() {
			continue
		}
		iv, isI := a.R.(*IfaceVal)
		match := false
		var val Value
		if isI {
			if toIface {
				match = e.implements(iv.T, at.Underlying().(*types.Interface))
				val = refTo(iv)
			} else {
				match = types.Identical(iv.T, at)
				val = iv.V
			}
		}
		if match {
			okT = append(okT, a.G)
			if res == nil {
				res = val
			} else {
				res = iteValue(a.G, val, res)
			}
		}
	}
	ok := Or(okT...)
	if res == nil {
		res = zeroValue(at)
	}
	if x.CommaOk {
		zero := zeroValue(at)
		return &StructV{F: []Value{iteValue(ok, res, zero), ok}}
	}
	e.raise(c, Not(ok), "interface conversion: type assertion failed")
	return res
}

func (e *Engine) implements(t types.Type, it *types.Interface) bool {
	if t == modelErrType {
		// error-like only
		return it.NumMethods() == 0 || (it.NumMethods() == 1 && it.Method(0).Name() == "Error")
	}
	if mt, ok := modelTypeImplements(t, it); ok {
		return mt
	}
	return types.Implements(t, it)
}

// ---------------- slices / arrays ----------------

// elemRef builds a reference to element (off+idx) of the arrays in base.
func (e *Engine) elemRef(c *Config, base *RefV, k *Term) *RefV {
	out := &RefV{}
	for _, a := range base.Alts {
		arr, ok := a.R.(*Cell)
		if !ok {
			continue
		}
		if k.IsConst() {
			i := int(k.val)
			if i < len(arr.Kids) {
				out.Alts = append(out.Alts, RefAlt{a.G, arr.Kids[i]})
			}
			continue
		}
		if vals, ok := e.feasibleLeaves(c, k, 32); ok {
			for _, v := range vals {
				if v < uint64(len(arr.Kids)) {
					g := And(a.G, Eq(k, BV(v, 64)))
					if And(g, c.g).IsFalse() {
						continue
					}
					out.Alts = append(out.Alts, RefAlt{g, arr.Kids[v]})
				}
			}
			continue
		}
		lo, hi := 0, len(arr.Kids)-1
		if l, h, ok := interval(k); ok && l >= 0 {
			if int(l) > lo {
				lo = int(l)
			}
			if h < int64(hi) {
				hi = int(h)
			}
		}
		for i := lo; i <= hi; i++ {
			kid := arr.Kids[i]
			g := And(a.G, Eq(k, BV(uint64(i), 64)))
			if And(g, c.g).IsFalse() {
				continue
			}
			out.Alts = append(out.Alts, RefAlt{g, kid})
		}
	}
	return out
}

func (e *Engine) indexAddr(c *Config, xv Value, idx *Term, it types.Type) Value {
	idx = toW(idx, 64, isSigned(it))
	switch x := xv.(type) {
	case *SliceV:
		e.raise(c, Not(Ult(idx, x.Len)), "index out of range")
		return e.elemRef(c, x.Base, Add(x.Off, idx))
	case *RefV: // pointer to array
		e.raise(c, isNilTerm(x), "nil pointer dereference")
		n := 0
		for _, a := range x.Alts {
			if cell, ok := a.R.(*Cell); ok {
				n = len(cell.Kids)
			}
		}
		e.raise(c, Not(Ult(idx, BV(uint64(n), 64))), "index out of range")
		return e.elemRef(c, x, idx)
	}
	inconclusive("IndexAddr on %T", xv)
	return nil
}

func (e *Engine) indexValue(c *Config, xv Value, idx *Term, it types.Type) Value {
	idx = toW(idx, 64, isSigned(it))
	switch x := xv.(type) {
	case *StructV: // array value
		e.raise(c, Not(Ult(idx, BV(uint64(len(x.F)), 64))), "index out of range")
		if idx.IsConst() {
			if int(idx.val) < len(x.F) {
				return x.F[idx.val]
			}
			return x.F[0]
		}
		var res Value
		for i := len(x.F) - 1; i >= 0; i-- {
			if res == nil {
				res = x.F[i]
			} else {
				res = iteValue(Eq(idx, BV(uint64(i), 64)), x.F[i], res)
			}
		}
		return res
	}
	inconclusive("Index on %T", xv)
	return nil
}

func (e *Engine) sliceOp(c *Config, f *Frame, x *ssa.Slice) Value {
	xv := e.get(f, x.X)
	var lo, hi, mx *Term
	if x.Low != nil {
		lo = toW(e.get(f, x.Low).(*Term), 64, isSigned(x.Low.Type()))
	} else {
		lo = BV(0, 64)
	}
	if x.High != nil {
		hi = toW(e.get(f, x.High).(*Term), 64, isSigned(x.High.Type()))
	}
	if x.Max != nil {
		mx = toW(e.get(f, x.Max).(*Term), 64, isSigned(x.Max.Type()))
	}
	switch s := xv.(type) {
	case *SliceV:
		if hi == nil {
			hi = s.Len
		}
		cp := s.Cap
		if mx != nil {
			e.raise(c, Not(Ule(mx, s.Cap)), "slice bounds out of range (max)")
			cp = mx
		}
		e.raise(c, Or(Not(Ule(hi, cp)), Not(Ule(lo, hi))), "slice bounds out of range")
		return &SliceV{Base: s.Base, Off: Add(s.Off, lo), Len: Sub(hi, lo), Cap: Sub(cp, lo)}
	case *RefV: // pointer to array
		e.raise(c, isNilTerm(s), "nil pointer dereference")
		n := 0
		for _, a := range s.Alts {
			if cell, ok := a.R.(*Cell); ok {
				n = len(cell.Kids)
			}
		}
		nn := BV(uint64(n), 64)
		if hi == nil {
			hi = nn
		}
		cp := nn
		if mx != nil {
			e.raise(c, Not(Ule(mx, nn)), "slice bounds out of range (max)")
			cp = mx
		}
		e.raise(c, Or(Not(Ule(hi, cp)), Not(Ule(lo, hi))), "slice bounds out of range")
		return &SliceV{Base: s, Off: lo, Len: Sub(hi, lo), Cap: Sub(cp, lo)}
	case *StrV:
		inconclusive("string slicing unsupported")
	}
	inconclusive("Slice on %T", xv)
	return nil
}

// sliceElems returns, for a slice with bounded backing array, the list of (index-condition, cell) per
// logical position i < maxLen: cells(i) as RefV.
func (e *Engine) sliceMaxLen(s *SliceV) int {
	n := 0
	for _, a := range s.Base.Alts {
		if cell, ok := a.R.(*Cell); ok && len(cell.Kids) > n {
			n = len(cell.Kids)
		}
	}
	if s.Len.IsConst() && int(s.Len.val) < n {
		return int(s.Len.val)
	}
	return n
}

// ---------------- maps ----------------

func (e *Engine) lookup(c *Config, f *Frame, x *ssa.Lookup) Value {
	mv := e.get(f, x.X)
	if _, ok := mv.(*StrV); ok {
		inconclusive("string indexing unsupported")
	}
	r := mv.(*RefV)
	key := e.get(f, x.Index)
	vt := x.X.Type().Underlying().(*types.Map).Elem()
	zero := zeroValue(vt)
	var res Value = zero
	found := TS.False
	for _, a := range r.Alts {
		m, ok := a.R.(*MapObj)
		if !ok {
			continue
		}
		if And(a.G, c.g).IsFalse() {
			continue
		}
		e.checkObjGuard(c, m.Obj, false)
		e.foot.read(m.Obj, And(c.g, a.G))
		for _, en := range m.Entries {
			hit := And(a.G, en.Present, eqValue(key, en.Key))
			if hit.IsFalse() {
				continue
			}
			res = iteValue(hit, loadCell(en.Val), res)
			found = Or(found, hit)
		}
	}
	if x.CommaOk {
		return &StructV{F: []Value{res, found}}
	}
	return res
}

func (e *Engine) mapUpdate(c *Config, r *RefV, key, val Value) {
	e.raise(c, isNilTerm(r), "assignment to entry in nil map")
	for _, a := range r.Alts {
		m, ok := a.R.(*MapObj)
		if !ok {
			continue
		}
		g := And(c.g, a.G)
		if g.IsFalse() {
			continue
		}
		e.checkObjGuard(c, m.Obj, true)
		e.foot.write(m.Obj, g)
		anyHit := TS.False
		var exact *MapEntry
		for _, en := range m.Entries {
			eq := eqValue(key, en.Key)
			if eq.IsTrue() {
				exact = en
			}
			hit := And(en.Present, eq)
			storeCell(en.Val, val, And(g, hit))
			anyHit = Or(anyHit, hit)
		}
		miss := And(g, Not(anyHit))
		if miss.IsFalse() {
			continue
		}
		if exact != nil {
			// same key as an absent entry: revive it
			storeCell(exact.Val, val, miss)
			exact.Present = Or(exact.Present, miss)
			continue
		}
		cell := newCell(m.T.Elem(), m.Obj, fmt.Sprintf("[%d]", len(m.Entries)))
		storeCell(cell, val, TS.True)
		m.Entries = append(m.Entries, &MapEntry{Key: key, Val: cell, Present: miss})
		e.taint(cell, val)
	}
}

func (e *Engine) mapDelete(c *Config, r *RefV, key Value) {
	for _, a := range r.Alts {
		m, ok := a.R.(*MapObj)
		if !ok {
			continue
		}
		g := And(c.g, a.G)
		if g.IsFalse() {
			continue
		}
		e.checkObjGuard(c, m.Obj, true)
		e.foot.write(m.Obj, g)
		for _, en := range m.Entries {
			hit := And(g, en.Present, eqValue(key, en.Key))
			en.Present = And(en.Present, Not(hit))
		}
	}
}

func (e *Engine) mapLen(c *Config, r *RefV) *Term {
	n := BV(0, 64)
	for _, a := range r.Alts {
		m, ok := a.R.(*MapObj)
		if !ok {
			continue
		}
		e.checkObjGuard(c, m.Obj, false)
		e.foot.read(m.Obj, And(c.g, a.G))
		for _, en := range m.Entries {
			n = Add(n, Ite(And(a.G, en.Present), BV(1, 64), BV(0, 64)))
		}
	}
	return n
}

func (e *Engine) mapNext(c *Config, f *Frame, x *ssa.Next) Value {
	it := e.get(f, x.Iter).(*IterV)
	tt := x.Type().(*types.Tuple)
	kz, vz := zeroValue(tt.At(1).Type()), zeroValue(tt.At(2).Type())
	if it.M == nil {
		return &StructV{F: []Value{TS.False, kz, vz}}
	}
	m := it.M
	e.foot.read(m.Obj, c.g)
	ok := TS.False
	var k, v Value = kz, vz
	pos := it.Pos
	newPos := pos
	taken := TS.False
	for i := it.MinPos; i < len(m.Entries); i++ {
		en := m.Entries[i]
		sel := And(Ule(pos, BV(uint64(i), 16)), en.Present, Not(taken))
		if sel.IsFalse() {
			continue
		}
		if !isInvalidType(tt.At(1).Type()) {
			k = iteValue(sel, en.Key, k)
		}
		if !isInvalidType(tt.At(2).Type()) {
			v = iteValue(sel, loadCell(en.Val), v)
		}
		newPos = Ite(sel, BV(uint64(i+1), 16), newPos)
		ok = Or(ok, sel)
		taken = Or(taken, sel)
	}
	newPos = Ite(ok, newPos, BV(uint64(len(m.Entries)), 16))
	f.regs[x.Iter] = &IterV{M: m, Pos: newPos, MinPos: it.MinPos + 1}
	return &StructV{F: []Value{ok, k, v}}
}

// upperBound derives a syntactic upper bound (unsigned) for small count-like terms (memoised: terms are DAGs).
var ubMemo = map[int][2]int{}

func upperBound(t *Term) (int, bool) {
	if v, ok := ubMemo[t.id]; ok {
		return v[0], v[1] == 1
	}
	r, ok := upperBound1(t)
	o := 0
	if ok {
		o = 1
	}
	ubMemo[t.id] = [2]int{r, o}
	return r, ok
}

func upperBound1(t *Term) (int, bool) {
	switch t.op {
	case OpConst:
		if t.val > 1<<20 {
			return 0, false
		}
		return int(t.val), true
	case OpIte:
		a, ok1 := upperBound(t.args[1])
		b, ok2 := upperBound(t.args[2])
		if !ok1 || !ok2 {
			return 0, false
		}
		if a > b {
			return a, true
		}
		return b, true
	case OpAdd:
		a, ok1 := upperBound(t.args[0])
		b, ok2 := upperBound(t.args[1])
		if !ok1 || !ok2 {
			return 0, false
		}
		return a + b, true
	case OpZext:
		return upperBound(t.args[0])
	}
	return 0, false
}

func isInvalidType(t types.Type) bool {
	b, ok := t.(*types.Basic)
	return ok && b.Kind() == types.Invalid
}

// resolveDeep resolves CondV wrappers inside a loaded value under guard g.
func resolveDeep(v Value, g *Term) Value {
	switch x := v.(type) {
	case *CondV:
		return resolveDeep(resolveCond(x, g), g)
	case *StructV:
		var out *StructV
		for i, f := range x.F {
			nf := resolveDeep(f, g)
			if nf != f {
				if out == nil {
					out = &StructV{F: append([]Value(nil), x.F...)}
				}
				out.F[i] = nf
			}
		}
		if out != nil {
			return out
		}
	}
	return v
}

// jumpYield jumps and, at join points, yields to the worklist so that configs arriving at the same
// point can be merged before anyone runs ahead.
func (e *Engine) jumpYield(c *Config, f *Frame, to *ssa.BasicBlock) bool {
	if !e.jump(c, f, to) {
		return false
	}
	if len(to.Preds) > 1 && len(e.work) > 0 {
		e.enqueue(c)
		return false
	}
	return true
}

// constLeaves: the set of values a term built from ite / add-of-constants over constants can take
// (at most max of them), in increasing order.
func constLeaves(t *Term, max int) ([]uint64, bool) {
	set := map[uint64]bool{}
	var walk func(t *Term, add uint64, depth int) bool
	visits := 0
	walk = func(t *Term, add uint64, depth int) bool {
		visits++
		if depth > 64 || visits > 4096 {
			return false
		}
		switch t.op {
		case OpConst:
			set[t.val+add] = true
			return len(set) <= max
		case OpIte:
			return walk(t.args[1], add, depth+1) && walk(t.args[2], add, depth+1)
		case OpAdd:
			if len(t.args) == 2 {
				if t.args[0].IsConst() {
					return walk(t.args[1], add+t.args[0].val, depth+1)
				}
				if t.args[1].IsConst() {
					return walk(t.args[0], add+t.args[1].val, depth+1)
				}
			}
		}
		return false
	}
	if !walk(t, 0, 0) {
		return nil, false
	}
	out := make([]uint64, 0, len(set))
	for v := range set {
		out = append(out, v)
	}
	sort.Slice(out, func(i, j int) bool { return out[i] < out[j] })
	return out, true
}


// leafGuards: for a term built from ite / add-of-constants over constants, the condition under which
// it takes each of its (at most max) values.
func leafGuards(t *Term, max int) (map[uint64]*Term, bool) {
	out := map[uint64]*Term{}
	visits := 0
	var walk func(t *Term, add uint64, pc *Term, depth int) bool
	walk = func(t *Term, add uint64, pc *Term, depth int) bool {
		visits++
		if depth > 64 || visits > 4096 {
			return false
		}
		if pc.IsFalse() {
			return true
		}
		switch t.op {
		case OpConst:
			v := t.val + add
			if old, ok := out[v]; ok {
				out[v] = Or(old, pc)
			} else {
				out[v] = pc
			}
			return len(out) <= max
		case OpIte:
			return walk(t.args[1], add, And(pc, t.args[0]), depth+1) && walk(t.args[2], add, And(pc, Not(t.args[0])), depth+1)
		case OpAdd:
			if len(t.args) == 2 {
				if t.args[0].IsConst() {
					return walk(t.args[1], add+t.args[0].val, pc, depth+1)
				}
				if t.args[1].IsConst() {
					return walk(t.args[0], add+t.args[1].val, pc, depth+1)
				}
			}
		}
		return false
	}
	if !walk(t, 0, TS.True, 0) {
		return nil, false
	}
	return out, true
}

// feasibleLeaves: the constant values t can take under c's guard, pruned with the propositional oracle.
func (e *Engine) feasibleLeaves(c *Config, t *Term, max int) ([]uint64, bool) {
	lg, ok := leafGuards(t, max)
	if !ok {
		return nil, false
	}
	var out []uint64
	for v, pc := range lg {
		if len(lg) > 1 {
			g := And(c.g, pc)
			if g.IsFalse() || semFalse(g) {
				continue
			}
		}
		out = append(out, v)
	}
	sort.Slice(out, func(i, j int) bool { return out[i] < out[j] })
	return out, true
}
