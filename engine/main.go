package main

import (
	"encoding/json"
	"flag"
	"fmt"
	"os"
	"os/exec"
	"runtime/debug"
	"sort"
	"strings"
	"time"
)

type OblResult struct {
	Kind     string            `json:"kind"`
	ID       string            `json:"id"`
	Want     string            `json:"want"`
	Status   string            `json:"status"`
	OK       bool              `json:"ok"`
	Ms       int64             `json:"ms"`
	Sites    []string          `json:"sites,omitempty"`
	Nondets  map[string]string `json:"nondets,omitempty"`
	Schedule []string          `json:"schedule,omitempty"`
	Entries  []SchedEntry      `json:"schedule_entries,omitempty"`
	Blocked  []BlockedRec      `json:"blocked,omitempty"`
	Visible  []string          `json:"visible_positions,omitempty"`
	SchedIdx []int             `json:"sched_idx,omitempty"`
	Detail   string            `json:"detail,omitempty"`
	Cross    string            `json:"cross,omitempty"`
}

type RunResult struct {
	Harness      string         `json:"harness"`
	Mode         string         `json:"mode"`
	T            int            `json:"T"`
	Unwind       int            `json:"unwind"`
	Status       string         `json:"status"` // ok | violated | inconclusive
	Inconclusive string         `json:"inconclusive,omitempty"`
	Obligations  []OblResult    `json:"obligations"`
	Functions    map[string]int `json:"functions_encoded"`
	Stubs        map[string]int `json:"stubs_hit"`
	Goroutines   []string       `json:"goroutines"`
	Assumes      int            `json:"assumes"`
	Merges       int            `json:"merges"`
	Instrs       int            `json:"instrs"`
	Terms        int            `json:"terms"`
	FeasQueries  int            `json:"feasibility_queries"`
	FeasCut      int            `json:"feasibility_pruned"`
	FeasMs       int64          `json:"feasibility_ms"`
	Queries      int            `json:"queries"`
	SolverMs     int64          `json:"solver_ms"`
	EncodeMs     int64          `json:"encode_ms"`
	LoadMs       int64          `json:"load_ms"`
	Solver       string         `json:"solver"`
	UnwindSites  []string       `json:"unwind_sites,omitempty"`
	BlockedSites []string       `json:"blocked_sites,omitempty"`
}

func main() {
	repo := flag.String("repo", "/repo", "repository root")
	hdir := flag.String("harness-dir", "/verif/harness", "harness directory")
	fn := flag.String("fn", "", "harness function")
	mode := flag.String("mode", "seq", "seq | sched")
	T := flag.Int("T", 16, "scheduler steps")
	unwind := flag.Int("unwind", 10, "loop unwinding bound per transition")
	solver := flag.String("solver", "z3-new", "z3-new | z3 | cvc5")
	cross := flag.String("cross", "", "second solver for cross-checking (optional)")
	timeout := flag.Int("timeout", 120000, "per-query timeout ms")
	out := flag.String("out", "", "result json path")
	smtlog := flag.String("smtlog", "", "dump solver input")
	allowBlock := flag.Bool("allow-block", false, "blocked paths in seq mode are not a violation")
	allowPanic := flag.Bool("allow-panic", false, "uncaught panics are not a violation")
	noPOR := flag.Bool("no-por", false, "disable partial-order constraint")
	only := flag.String("only", "", "only check obligations whose id contains this")
	exclude := flag.String("exclude", "", "name=value,...: exclude this assignment of nondets (known finding) from assert/panic queries")
	verbose := flag.Bool("v", false, "verbose")
	trace := flag.Bool("trace", false, "trace every interpreted instruction")
	eager := flag.String("eager", "", "||-separated runtime-panic sites whose unwinding is executed eagerly")
	feasSched := flag.Bool("feas-sched", false, "solver feasibility checks at loop back edges in sched mode too")
	unwindFn := flag.String("unwind-fn", "", "per-function unwinding bounds: Name=n,Name=n")
	defines := flag.String("define", "", "override integer constants of the harness files: name=value,...")
	feasTimeout := flag.Int("feas-timeout", 20000, "timeout (ms) of one feasibility query; unknown keeps the configuration")
	feasPar := flag.Int("feas-par", 8, "solver processes used in parallel for feasibility pruning")
	settleFeas := flag.Int("settle-feas", 8, "solver feasibility pruning of resting configs when a goroutine has more than this many (0 = off)")
	eagerAll := flag.Bool("eager-all", false, "execute every potential runtime panic eagerly")
	instrDir := flag.String("instrument", "", "write instrumented copies of the package sources (for native schedule replay) into this directory and exit")
	flag.Parse()
	for _, kv := range strings.Split(*defines, ",") {
		if i := strings.Index(kv, "="); i > 0 {
			harnessDefines[kv[:i]] = kv[i+1:]
		}
	}
	if *instrDir != "" {
		TS = NewTermStore()
		l, err := loadRepo(*repo, *hdir, nil)
		if err != nil {
			fmt.Fprintln(os.Stderr, "load failed:", err)
			os.Exit(3)
		}
		os.MkdirAll(*instrDir, 0755)
		m, err := instrumentRepo(l, *instrDir)
		if err != nil {
			fmt.Fprintln(os.Stderr, "instrument failed:", err)
			os.Exit(3)
		}
		b, _ := json.MarshalIndent(m, "", " ")
		fmt.Println(string(b))
		return
	}

	res := &RunResult{Harness: *fn, Mode: *mode, T: *T, Unwind: *unwind, Solver: *solver}
	start := time.Now()
	finish := func() {
		b, _ := json.MarshalIndent(res, "", " ")
		if *out != "" {
			os.WriteFile(*out, b, 0644)
		} else {
			fmt.Println(string(b))
		}
	}
	TS = NewTermStore()
	l, err := loadRepo(*repo, *hdir, nil)
	if err != nil {
		res.Status = "inconclusive"
		res.Inconclusive = "load failed: " + err.Error()
		finish()
		os.Exit(3)
	}
	res.LoadMs = time.Since(start).Milliseconds()
	h := l.Pkg.Func(*fn)
	if h == nil {
		res.Status = "inconclusive"
		res.Inconclusive = "harness function not found: " + *fn
		finish()
		os.Exit(3)
	}
	e := NewEngine(l)
	e.mode = *mode
	e.T = *T
	e.unwind = *unwind
	e.noPOR = *noPOR
	e.trace = *trace
	e.settleFeas = *settleFeas
	e.feasPar = *feasPar
	e.feasTimeout = *feasTimeout
	e.unwindFn = map[string]int{}
	for _, kv := range strings.Split(*unwindFn, ",") {
		p := strings.SplitN(kv, "=", 2)
		if len(p) == 2 {
			var n int
			fmt.Sscanf(p[1], "%d", &n)
			e.unwindFn[p[0]] = n
		}
	}
	if *verbose {
		e.profile = map[string]int{}
	}
	e.eager = map[string]bool{}
	for _, s := range strings.Split(*eager, "||") {
		if s != "" {
			e.eager[s] = true
		}
	}
	e.backEdgeFeas = *mode == "seq" || *feasSched
	if *eagerAll {
		e.eager = nil
	}
	var si *SchedInfo
	encStart := time.Now()
	func() {
		defer func() {
			if r := recover(); r != nil {
				if inc, ok := r.(Inconclusive); ok {
					res.Status = "inconclusive"
					res.Inconclusive = inc.Msg
					return
				}
				res.Status = "inconclusive"
				res.Inconclusive = fmt.Sprintf("engine panic: %v\n%s", r, debug.Stack())
			}
		}()
		si = e.runHarness(h)
	}()
	res.EncodeMs = time.Since(encStart).Milliseconds()
	res.Functions = e.funcsSeen
	res.Stubs = e.stubsSeen
	res.Assumes = e.assumes
	res.Merges = e.merges
	res.Instrs = e.instrs
	res.Terms = TS.next
	if *verbose {
		type kv struct {
			k string
			v int
		}
		var kvs []kv
		for k, v := range e.profile {
			kvs = append(kvs, kv{k, v})
		}
		sort.Slice(kvs, func(i, j int) bool { return kvs[i].v > kvs[j].v })
		for i := 0; i < 8 && i < len(kvs); i++ {
			fmt.Fprintf(os.Stderr, "profile: %8d terms at %s\n", kvs[i].v, kvs[i].k)
		}
		if theBDD != nil {
			fmt.Fprintf(os.Stderr, "bdd: nodes=%d vars=%d calls=%d cut=%d aborts=%d resets=%d\n", len(theBDD.nodes), theBDD.nvars, bddStats.calls, bddStats.cut, bddStats.aborts, bddStats.resets)
		}
		fmt.Fprintf(os.Stderr, "encoded: instrs=%d terms=%d merges=%d lazy=%d constraints=%d encode_ms=%d\n", e.instrs, TS.next, e.merges, len(e.lazyPanics), len(e.constraints), res.EncodeMs)
	}
	res.FeasQueries, res.FeasCut, res.FeasMs = e.feasN, e.feasCut, e.feasMs
	for _, sv := range e.feasPool {
		if sv != nil {
			sv.Close()
		}
	}
	if e.feas != nil {
		e.feas.Close()
	}
	for _, g := range e.gors {
		d := ""
		if g.daemon {
			d = " (daemon)"
		}
		res.Goroutines = append(res.Goroutines, fmt.Sprintf("g%d %s%s", g.idx, g.name, d))
	}
	for k := range e.unwindWhere {
		res.UnwindSites = append(res.UnwindSites, k)
	}
	for k := range e.blockedAt {
		res.BlockedSites = append(res.BlockedSites, k)
	}
	sort.Strings(res.UnwindSites)
	sort.Strings(res.BlockedSites)
	if res.Status == "inconclusive" {
		finish()
		fmt.Fprintln(os.Stderr, "INCONCLUSIVE:", res.Inconclusive)
		os.Exit(3)
	}

	// ---- build obligations ----
	type q struct {
		kind, id, want string
		t              *Term
		sites          []string
	}
	var qs []q
	groups := map[string][]Obl{}
	var gorder []string
	for _, a := range e.asserts {
		if _, ok := groups[a.ID]; !ok {
			gorder = append(gorder, a.ID)
		}
		groups[a.ID] = append(groups[a.ID], a)
	}
	mk := func(list []Obl) (*Term, []string) {
		var vs []*Term
		seen := map[string]bool{}
		var sites []string
		for _, o := range list {
			v := And(o.G, Not(o.Cond))
			if v.IsFalse() {
				continue
			}
			vs = append(vs, v)
			if !seen[o.Pos] {
				seen[o.Pos] = true
				sites = append(sites, o.Pos)
			}
		}
		return Or(vs...), sites
	}
	for _, id := range gorder {
		t, sites := mk(groups[id])
		qs = append(qs, q{"assert", id, "unsat", t, sites})
	}
	if !*allowPanic {
		t, sites := mk(e.crashes)
		qs = append(qs, q{"panic", "no-uncaught-panic", "unsat", t, sites})
	}
	if len(e.guardViol) > 0 || e.guardsOn {
		gg := map[string][]Obl{}
		var go2 []string
		for _, o := range e.guardViol {
			if _, ok := gg[o.ID]; !ok {
				go2 = append(go2, o.ID)
			}
			gg[o.ID] = append(gg[o.ID], o)
		}
		sort.Strings(go2)
		for _, id := range go2 {
			t, sites := mk(gg[id])
			qs = append(qs, q{"guard", id, "unsat", t, sites})
		}
		if len(go2) == 0 {
			qs = append(qs, q{"guard", "all-guarded-accesses-hold-their-lock", "unsat", TS.False, nil})
		}
	}
	qs = append(qs, q{"unwind", "unwinding-assertion", "unsat", e.unwindFail, res.UnwindSites})
	if e.mode == "seq" {
		if !*allowBlock {
			qs = append(qs, q{"block", "no-blocked-path", "unsat", e.blocked, res.BlockedSites})
		}
	} else {
		qs = append(qs, q{"stuck", "no-stuck-state", "unsat", And(si.AliveT, Not(si.AnyEnT)), nil})
		qs = append(qs, q{"bound", "bound-adequate", "unsat", si.AnyEnT, nil})
	}
	for _, id := range e.reachOrd {
		qs = append(qs, q{"reach", id, "sat", e.reaches[id], nil})
	}
	qs = append(qs, q{"reach", "harness-end", "sat", e.gors[0].doneG, nil})

	if *exclude != "" {
		var eqs []*Term
		for _, kv := range strings.Split(*exclude, ",") {
			p := strings.SplitN(kv, "=", 2)
			t, ok := e.nondets[p[0]]
			if !ok || len(p) != 2 {
				continue
			}
			if t.w == 0 {
				eqs = append(eqs, Eq(t, BoolT(p[1] == "true")))
			} else {
				var v int64
				fmt.Sscanf(p[1], "%d", &v)
				eqs = append(eqs, Eq(t, BV(uint64(v), t.w)))
			}
		}
		if len(eqs) > 0 {
			e.constraints = append(e.constraints, Not(And(eqs...)))
		}
	}
	sv, err := NewSolver(*solver, *smtlog)
	if err != nil {
		res.Status = "inconclusive"
		res.Inconclusive = "cannot start solver: " + err.Error()
		finish()
		os.Exit(3)
	}
	var sv2 *Solver
	if *cross != "" {
		sv2, _ = NewSolver(*cross, "")
	}
	// lazily skipped runtime panics: if any is feasible, re-run with those sites eager
	if len(e.lazyPanics) > 0 {
		var gs []*Term
		for _, o := range e.lazyPanics {
			gs = append(gs, o.G)
		}
		r := sv.Check(append(append([]*Term{}, e.constraints...), Or(gs...)), *timeout, false)
		if *verbose {
			fmt.Fprintf(os.Stderr, "lazy-panic query: %s %dms (%d sites)\n", r.Status, r.Dur.Milliseconds(), len(e.lazyPanics))
		}
		if r.Status != "unsat" {
			bySite := map[string][]*Term{}
			var order []string
			for _, o := range e.lazyPanics {
				if _, ok := bySite[o.ID]; !ok {
					order = append(order, o.ID)
				}
				bySite[o.ID] = append(bySite[o.ID], o.G)
			}
			var need []string
			for _, site := range order {
				r2 := sv.Check(append(append([]*Term{}, e.constraints...), Or(bySite[site]...)), *timeout, false)
				if *verbose {
					fmt.Fprintf(os.Stderr, "lazy-panic site %s: %s %dms\n", site, r2.Status, r2.Dur.Milliseconds())
				}
				if r2.Status != "unsat" {
					need = append(need, site)
				}
			}
			sv.Close()
			if len(need) > 0 && len(e.eager) < 40 {
				all := need
				for k := range e.eager {
					all = append(all, k)
				}
				var args []string
				skip := false
				for _, a := range os.Args[1:] {
					if skip {
						skip = false
						continue
					}
					if a == "-eager" {
						skip = true
						continue
					}
					if strings.HasPrefix(a, "-eager=") {
						continue
					}
					args = append(args, a)
				}
				args = append([]string{"-eager", strings.Join(all, "||")}, args...)
				if *verbose {
					fmt.Fprintf(os.Stderr, "re-running with eager runtime-panic sites: %v\n", need)
				}
				cmd := exec.Command(os.Args[0], args...)
				cmd.Stdout, cmd.Stderr = os.Stdout, os.Stderr
				err := cmd.Run()
				if ee, ok := err.(*exec.ExitError); ok {
					os.Exit(ee.ExitCode())
				}
				if err != nil {
					os.Exit(3)
				}
				os.Exit(0)
			}
			res.Status = "inconclusive"
			res.Inconclusive = "feasible lazily-skipped runtime panics could not be resolved: " + strings.Join(need, "; ")
			finish()
			os.Exit(3)
		}
	}
	res.Status = "ok"
	for _, qq := range qs {
		if *only != "" && !strings.Contains(qq.id, *only) && qq.kind != "reach" {
			continue
		}
		or := OblResult{Kind: qq.kind, ID: qq.id, Want: qq.want, Sites: qq.sites}
		if qq.t.IsFalse() {
			or.Status = "unsat"
			or.Detail = "trivially false after simplification"
		} else {
			asserts := append(append([]*Term{}, e.constraints...), qq.t)
			if sv.cmd.ProcessState != nil || sv.dead {
				sv.Close()
				sv, _ = NewSolver(*solver, "")
			}
			r := sv.Check(asserts, *timeout, true)
			or.Status = r.Status
			or.Ms = r.Dur.Milliseconds()
			or.Detail = r.Detail
			if sv2 != nil {
				r2 := sv2.Check(asserts, *timeout, false)
				or.Cross = r2.Status
				if r2.Status != r.Status && (r2.Status == "sat" || r2.Status == "unsat") && (r.Status == "sat" || r.Status == "unsat") {
					or.Status = "error"
					or.Detail = fmt.Sprintf("solver disagreement: %s=%s %s=%s", *solver, r.Status, *cross, r2.Status)
				}
			}
			if r.Status == "sat" && len(TS.ufs) == 0 {
				// sanity: the returned model must satisfy everything that was asserted (evaluated by the
				// engine's own term evaluator); otherwise the verdict is not trusted
				memo := map[int]uint64{}
				for _, a := range asserts {
					if Eval(a, r.Model, memo) == 0 {
						or.Status = "error"
						or.Detail = "solver model does not satisfy an asserted term: " + a.String()
						break
					}
				}
			}
			if r.Status == "sat" && (qq.want == "unsat" || qq.id == "harness-end" || qq.id == "quiescent") && or.Status == "sat" {
				or.Nondets = map[string]string{}
				for _, n := range e.nondetOrd {
					t := e.nondets[n]
					v := r.Model["nd_"+n]
					if t.w == 0 {
						or.Nondets[n] = fmt.Sprintf("%v", v != 0)
					} else {
						or.Nondets[n] = fmt.Sprintf("%d", signExt(v, t.w))
					}
				}
				for k, v := range r.Model {
					if strings.HasPrefix(k, "rand_") || strings.HasPrefix(k, "dt_") || strings.HasPrefix(k, "ch") {
						or.Nondets[k] = fmt.Sprintf("%d", int64(v))
					}
				}
				if si != nil {
					or.Schedule = e.describeSchedule(si, r.Model)
					or.Entries = e.scheduleEntries(si, r.Model)
					or.Visible = visiblePositions(si)
					if qq.kind == "stuck" {
						or.Blocked = e.blockedUnder(si, r.Model)
					}
					for t := 0; t < len(si.S); t++ {
						or.SchedIdx = append(or.SchedIdx, int(r.Model[fmt.Sprintf("s_%d", t)]))
					}
				}
			}
		}
		or.OK = or.Status == qq.want
		if !or.OK {
			if or.Status == "sat" || or.Status == "unsat" {
				if res.Status == "ok" {
					res.Status = "violated"
				}
			} else {
				res.Status = "inconclusive"
				if res.Inconclusive == "" {
					res.Inconclusive = fmt.Sprintf("query %s/%s: %s %s", qq.kind, qq.id, or.Status, or.Detail)
				}
			}
		}
		if *verbose {
			fmt.Fprintf(os.Stderr, "%-7s %-40s want=%-5s got=%-7s %dms\n", qq.kind, qq.id, qq.want, or.Status, or.Ms)
		}
		res.Obligations = append(res.Obligations, or)
	}
	res.Queries = sv.Queries
	res.SolverMs = sv.Time.Milliseconds()
	sv.Close()
	if sv2 != nil {
		res.Queries += sv2.Queries
		res.SolverMs += sv2.Time.Milliseconds()
		sv2.Close()
	}
	finish()
	switch res.Status {
	case "ok":
		os.Exit(0)
	case "violated":
		os.Exit(1)
	default:
		os.Exit(3)
	}
}
