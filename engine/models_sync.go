package main

import (
	"fmt"
	"go/types"
	"strings"
)

// ---------- helpers ----------

func fieldCell(c *Cell, name string) *Cell {
	st, ok := c.T.Underlying().(*types.Struct)
	if !ok {
		inconclusive("fieldCell(%s) on non-struct %v", name, c.T)
	}
	for i := 0; i < st.NumFields(); i++ {
		if st.Field(i).Name() == name {
			return c.Kids[i]
		}
	}
	inconclusive("field %s not found in %v", name, c.T)
	return nil
}

func (cc *CallCtx) recvCell(i int) *Cell {
	r := pruneRefUnder(cc.args[i].(*RefV), cc.c.g)
	if len(r.Alts) == 0 {
		cc.c.g = TS.False
		return nil
	}
	if len(r.Alts) != 1 {
		inconclusive("model receiver not concretized at %s (%s): %s", cc.e.posOf(cc.c), cc.e.opName(cc.c), valStr(r))
	}
	cell, ok := r.Alts[0].R.(*Cell)
	if !ok {
		cc.e.raise(cc.c, TS.True, "nil pointer dereference (sync receiver)")
		return nil
	}
	return cell
}

func termOf(c *Cell) *Term { return c.Val.(*Term) }

func (e *Engine) setHeld(c *Config, mu *Cell, mode uint64) {
	if c.held == nil {
		c.held = map[*Cell]*Term{}
	}
	c.held[mu] = BV(mode, 2)
}

func (e *Engine) heldMode(c *Config, mu *Cell) *Term {
	if c.held == nil {
		return BV(0, 2)
	}
	if t, ok := c.held[mu]; ok {
		return t
	}
	return BV(0, 2)
}

func (e *Engine) upd(c *Config, cell *Cell, v *Term) {
	e.foot.write(cell.Obj, c.g)
	storeCell(cell, v, c.g)
}

// ---------- Mutex ----------

func muState(mu *Cell) *Cell { return fieldCell(mu, "state") }

func (e *Engine) mutexLock(c *Config, mu *Cell) {
	e.upd(c, muState(mu), BV(1, 32))
	e.setHeld(c, mu, 2)
}

func (e *Engine) mutexUnlock(c *Config, mu *Cell) {
	st := termOf(muState(mu))
	e.raise(c, Eq(st, BV(0, 32)), "sync: unlock of unlocked mutex")
	e.upd(c, muState(mu), BV(0, 32))
	e.setHeld(c, mu, 0)
}

// ---------- RWMutex ----------

func rwW(mu *Cell) *Cell       { return fieldCell(fieldCell(mu, "w"), "state") }
func rwReaders(mu *Cell) *Cell { return fieldCell(fieldCell(mu, "readerCount"), "v") }

func isRW(mu *Cell) bool {
	n, ok := mu.T.(*types.Named)
	return ok && n.Obj().Name() == "RWMutex"
}

// lockerFree: can the (write) lock of a Mutex/RWMutex cell be taken now?
func lockerFree(mu *Cell) *Term {
	if isRW(mu) {
		return And(Eq(termOf(rwW(mu)), BV(0, 32)), Eq(termOf(rwReaders(mu)), BV(0, 32)))
	}
	return Eq(termOf(muState(mu)), BV(0, 32))
}

func (e *Engine) lockerLock(c *Config, mu *Cell) {
	if isRW(mu) {
		e.upd(c, rwW(mu), BV(2, 32))
		e.setHeld(c, mu, 2)
		return
	}
	e.mutexLock(c, mu)
}

func (e *Engine) lockerUnlock(c *Config, mu *Cell) {
	if isRW(mu) {
		st := termOf(rwW(mu))
		e.raise(c, Not(Eq(st, BV(2, 32))), "sync: Unlock of unlocked RWMutex")
		e.upd(c, rwW(mu), BV(0, 32))
		e.setHeld(c, mu, 0)
		return
	}
	e.mutexUnlock(c, mu)
}

// selfDeadlock flags a lock attempt on a mutex this goroutine already holds.
func (e *Engine) selfDeadlockCheck(c *Config, mu *Cell, what string) {
	h := e.heldMode(c, mu)
	if h.IsConst() && h.val != 0 && e.guardsOn {
		e.guardViol = append(e.guardViol, Obl{ID: "lock-reentry", G: c.g, Cond: TS.False, Pos: e.posOf(c) + " " + what + " on " + mu.Obj.Name + mu.Path, Step: e.step})
	}
}

func unlockVisible(mu *Cell) bool { return mu.TryObserved }

func init() {
	models["(*sync.Mutex).Lock"] = &Model{Visible: true,
		Enabled: func(cc *CallCtx, ph int) *Term {
			mu := cc.recvCell(0)
			if mu == nil {
				return TS.True
			}
			cc.e.foot.read(mu.Obj, cc.c.g)
			return lockerFree(mu)
		},
		Exec: func(cc *CallCtx, ph int) (Value, bool) {
			if mu := cc.recvCell(0); mu != nil {
				cc.e.mutexLock(cc.c, mu)
			}
			return nil, true
		}}
	models["(*sync.Mutex).TryLock"] = &Model{Visible: true,
		Enabled: func(cc *CallCtx, ph int) *Term { return TS.True },
		Exec: func(cc *CallCtx, ph int) (Value, bool) {
			mu := cc.recvCell(0)
			if mu == nil {
				return TS.False, true
			}
			ok := lockerFree(mu)
			cc.e.foot.write(mu.Obj, cc.c.g)
			storeCell(muState(mu), BV(1, 32), And(cc.c.g, ok))
			if cc.c.held == nil {
				cc.c.held = map[*Cell]*Term{}
			}
			cc.c.held[mu] = Ite(ok, BV(2, 2), cc.e.heldMode(cc.c, mu))
			return ok, true
		}}
	unlockModel := func(rw bool, read bool) *Model {
		m := &Model{}
		do := func(cc *CallCtx) {
			mu := cc.recvCell(0)
			if mu == nil {
				return
			}
			if read {
				rc := rwReaders(mu)
				e := cc.e
				e.raise(cc.c, Eq(termOf(rc), BV(0, 32)), "sync: RUnlock of unlocked RWMutex")
				e.upd(cc.c, rc, Sub(termOf(rc), BV(1, 32)))
				e.setHeld(cc.c, mu, 0)
				return
			}
			cc.e.lockerUnlock(cc.c, mu)
		}
		// visibility is decided per call (depends on the mutex): implemented as Takeover
		m.Takeover = func(cc *CallCtx) bool {
			mu := cc.recvCell(0)
			if mu == nil {
				return false
			}
			if !unlockVisible(mu) || cc.e.mode != "sched" {
				do(cc)
				if cc.c.g.IsFalse() {
					return false
				}
				cc.finish(nil)
				return true
			}
			return cc.e.visibleOp(cc.c, cc.rest, func(int) *Term { return TS.True }, func(int) bool { do(cc); cc.finish(nil); return true })
		}
		return m
	}
	models["(*sync.Mutex).Unlock"] = unlockModel(false, false)
	models["(*sync.RWMutex).Unlock"] = unlockModel(true, false)
	models["(*sync.RWMutex).RUnlock"] = unlockModel(true, true)

	models["(*sync.RWMutex).Lock"] = &Model{Visible: true,
		Enabled: func(cc *CallCtx, ph int) *Term {
			mu := cc.recvCell(0)
			if mu == nil {
				return TS.True
			}
			cc.e.foot.read(mu.Obj, cc.c.g)
			if mu.TryObserved {
				if ph == 0 {
					return Eq(termOf(rwW(mu)), BV(0, 32))
				}
				return Eq(termOf(rwReaders(mu)), BV(0, 32))
			}
			return lockerFree(mu)
		},
		Exec: func(cc *CallCtx, ph int) (Value, bool) {
			mu := cc.recvCell(0)
			if mu == nil {
				return nil, true
			}
			if mu.TryObserved && ph == 0 {
				cc.e.selfDeadlockCheck(cc.c, mu, "Lock")
				cc.e.upd(cc.c, rwW(mu), BV(1, 32))
				return nil, false
			}
			if !mu.TryObserved {
				cc.e.selfDeadlockCheck(cc.c, mu, "Lock")
			}
			cc.e.lockerLock(cc.c, mu)
			return nil, true
		}}
	models["(*sync.RWMutex).RLock"] = &Model{Visible: true,
		Enabled: func(cc *CallCtx, ph int) *Term {
			mu := cc.recvCell(0)
			if mu == nil {
				return TS.True
			}
			cc.e.foot.read(mu.Obj, cc.c.g)
			return Eq(termOf(rwW(mu)), BV(0, 32))
		},
		Exec: func(cc *CallCtx, ph int) (Value, bool) {
			mu := cc.recvCell(0)
			if mu == nil {
				return nil, true
			}
			cc.e.selfDeadlockCheck(cc.c, mu, "RLock")
			rc := rwReaders(mu)
			cc.e.upd(cc.c, rc, Add(termOf(rc), BV(1, 32)))
			cc.e.setHeld(cc.c, mu, 1)
			return nil, true
		}}
	models["(*sync.RWMutex).TryRLock"] = &Model{Visible: true,
		Enabled: func(cc *CallCtx, ph int) *Term { return TS.True },
		Exec: func(cc *CallCtx, ph int) (Value, bool) {
			mu := cc.recvCell(0)
			if mu == nil {
				return TS.False, true
			}
			ok := Eq(termOf(rwW(mu)), BV(0, 32))
			rc := rwReaders(mu)
			cc.e.foot.write(mu.Obj, cc.c.g)
			// ghost: failed Try operations count towards the spin bound assumption
			cc.e.tryFailCount = Ite(And(cc.c.g, Not(ok)), Add(cc.e.tryFailCount, BV(1, 8)), cc.e.tryFailCount)
			storeCell(rc, Add(termOf(rc), BV(1, 32)), And(cc.c.g, ok))
			if cc.c.held == nil {
				cc.c.held = map[*Cell]*Term{}
			}
			cc.c.held[mu] = Ite(ok, BV(1, 2), cc.e.heldMode(cc.c, mu))
			return ok, true
		}}
	models["(*sync.RWMutex).TryLock"] = &Model{Visible: true,
		Enabled: func(cc *CallCtx, ph int) *Term { return TS.True },
		Exec: func(cc *CallCtx, ph int) (Value, bool) {
			mu := cc.recvCell(0)
			if mu == nil {
				return TS.False, true
			}
			ok := lockerFree(mu)
			cc.e.foot.write(mu.Obj, cc.c.g)
			storeCell(rwW(mu), BV(2, 32), And(cc.c.g, ok))
			if cc.c.held == nil {
				cc.c.held = map[*Cell]*Term{}
			}
			cc.c.held[mu] = Ite(ok, BV(2, 2), cc.e.heldMode(cc.c, mu))
			return ok, true
		}}

	// ---------- Cond ----------
	models["sync.NewCond"] = &Model{Plain: func(cc *CallCtx) Value {
		t := cc.site.Common.Value.Type().(*types.Signature).Results().At(0).Type().(*types.Pointer).Elem()
		cell := cc.e.allocCell(cc.c, t, "cond")
		storeCell(fieldCell(cell, "L"), cc.args[0], cc.c.g)
		return refTo(cell)
	}}
	// sync.Cond follows the runtime's notifyList exactly: a waiter takes ticket = wait++ and is woken once
	// notify > ticket; Signal increments notify (if anybody waits), Broadcast sets notify = wait. Hence
	// Signal wakes waiters in FIFO order, as the real runtime does (needed for faithful native replay).
	models["(*sync.Cond).Wait"] = &Model{Visible: true,
		Enabled: func(cc *CallCtx, ph int) *Term {
			if ph == 0 {
				return TS.True
			}
			cd := cc.recvCell(0)
			cc.e.foot.read(cd.Obj, cc.c.g)
			mu := condLocker(cc, cd)
			if mu == nil {
				return TS.True
			}
			cc.e.foot.read(mu.Obj, cc.c.g)
			tk := termOf(cc.e.condTicket(cd, cc.c.gor))
			return And(Ult(tk, termOf(condNotify(cd))), lockerFree(mu))
		},
		Exec: func(cc *CallCtx, ph int) (Value, bool) {
			cd := cc.recvCell(0)
			if cd == nil {
				return nil, true
			}
			mu := condLocker(cc, cd)
			if mu == nil {
				cc.e.raise(cc.c, TS.True, "nil pointer dereference (cond.L)")
				return nil, true
			}
			wc := condWaiters(cd)
			if ph == 0 {
				cc.e.lockerUnlock(cc.c, mu)
				cc.e.upd(cc.c, cc.e.condTicket(cd, cc.c.gor), termOf(wc))
				cc.e.upd(cc.c, wc, Add(termOf(wc), BV(1, 32)))
				return nil, false
			}
			cc.e.lockerLock(cc.c, mu)
			return nil, true
		}}
	bcast := func(signal bool) *Model {
		return &Model{Takeover: func(cc *CallCtx) bool {
			cd := cc.recvCell(0)
			if cd == nil {
				return false
			}
			do := func() {
				wc, nc := condWaiters(cd), condNotify(cd)
				if signal {
					some := Not(Eq(termOf(wc), termOf(nc)))
					cc.e.upd(cc.c, nc, Ite(some, Add(termOf(nc), BV(1, 32)), termOf(nc)))
				} else {
					cc.e.upd(cc.c, nc, termOf(wc))
				}
			}
			mu := condLocker(cc, cd)
			heldW := false
			if mu != nil {
				h := cc.e.heldMode(cc.c, mu)
				heldW = h.IsConst() && h.val == 2
			}
			if cc.e.mode != "sched" || heldW {
				do()
				cc.finish(nil)
				return true
			}
			return cc.e.visibleOp(cc.c, cc.rest, func(int) *Term { return TS.True }, func(int) bool { do(); cc.finish(nil); return true })
		}}
	}
	models["(*sync.Cond).Broadcast"] = bcast(false)
	models["(*sync.Cond).Signal"] = bcast(true)

	// ---------- Once ----------
	models["(*sync.Once).Do"] = &Model{TakeoverEnabled: func(cc *CallCtx, ph int) *Term {
		o := cc.recvCell(0)
		if o == nil {
			return TS.True
		}
		cc.e.foot.read(o.Obj, cc.c.g)
		return Or(Not(Eq(termOf(fieldCell(fieldCell(o, "done"), "v")), BV(0, 32))), lockerFree(fieldCell(o, "m")))
	}, Takeover: func(cc *CallCtx) bool {
		o := cc.recvCell(0)
		if o == nil {
			return false
		}
		e := cc.e
		doneC := fieldCell(fieldCell(o, "done"), "v")
		mu := fieldCell(o, "m")
		fnv := cc.args[1]
		return e.visibleOp(cc.c, cc.rest,
			func(int) *Term {
				e.foot.read(o.Obj, cc.c.g)
				return Or(Not(Eq(termOf(doneC), BV(0, 32))), lockerFree(mu))
			},
			func(int) bool {
				c := cc.c
				done := Not(Eq(termOf(doneC), BV(0, 32)))
				// already done: return immediately
				cd, cn := e.split(c, done)
				if cd != nil {
					cdc := *cc
					cdc.c = cd
					cdc.f = cd.top()
					cdc.finish(nil)
					if cd != c {
						e.enqueue(cd)
					}
				}
				if cn == nil {
					return true
				}
				// run f holding o.m
				e.mutexLock(cn, mu)
				site := cc.site
				after := func(e *Engine, c2 *Config, _ Value) {
					e.upd(c2, doneC, BV(1, 32))
					e.mutexUnlock(c2, mu)
					f2 := c2.top()
					if site.Call != nil {
						f2.idx++
					} else {
						f2.pending = nil
					}
				}
				e.callValue(cn, fnv, nil, after, func(e *Engine, c2 *Config) {
					e.upd(c2, doneC, BV(1, 32))
					e.mutexUnlock(c2, mu)
				})
				if cn != c {
					e.enqueue(cn)
					return true
				}
				return true
			})
	}}

	// ---------- WaitGroup ----------
	wgCounter := func(wg *Cell) *Cell { return fieldCell(fieldCell(wg, "state"), "v") }
	wgAdd := func(cc *CallCtx, wg *Cell, d *Term) {
		cn := wgCounter(wg)
		nv := Add(termOf(cn), d)
		cc.e.upd(cc.c, cn, nv)
		cc.e.raise(cc.c, Slt(nv, BV(0, 64)), "sync: negative WaitGroup counter")
	}
	models["(*sync.WaitGroup).Add"] = &Model{Visible: true,
		Enabled: func(cc *CallCtx, ph int) *Term { return TS.True },
		Exec: func(cc *CallCtx, ph int) (Value, bool) {
			if wg := cc.recvCell(0); wg != nil {
				wgAdd(cc, wg, cc.args[1].(*Term))
			}
			return nil, true
		}}
	models["(*sync.WaitGroup).Done"] = &Model{Visible: true,
		Enabled: func(cc *CallCtx, ph int) *Term { return TS.True },
		Exec: func(cc *CallCtx, ph int) (Value, bool) {
			if wg := cc.recvCell(0); wg != nil {
				wgAdd(cc, wg, BV(^uint64(0), 64))
			}
			return nil, true
		}}
	models["(*sync.WaitGroup).Wait"] = &Model{Visible: true,
		Enabled: func(cc *CallCtx, ph int) *Term {
			wg := cc.recvCell(0)
			if wg == nil {
				return TS.True
			}
			cc.e.foot.read(wg.Obj, cc.c.g)
			return Eq(termOf(wgCounter(wg)), BV(0, 64))
		},
		Exec: func(cc *CallCtx, ph int) (Value, bool) { cc.recvCell(0); return nil, true }}

	// ---------- atomics ----------
	for _, tn := range []string{"Uint64", "Int32", "Int64", "Uint32"} {
		tn := tn
		w := 64
		if strings.HasSuffix(tn, "32") {
			w = 32
		}
		vcell := func(cc *CallCtx) *Cell {
			a := cc.recvCell(0)
			if a == nil {
				return nil
			}
			return fieldCell(a, "v")
		}
		always := func(cc *CallCtx, ph int) *Term { return TS.True }
		models[fmt.Sprintf("(*sync/atomic.%s).Load", tn)] = &Model{Visible: true, Enabled: always,
			Exec: func(cc *CallCtx, ph int) (Value, bool) {
				v := vcell(cc)
				if v == nil {
					return BV(0, w), true
				}
				cc.e.foot.read(v.Obj, cc.c.g)
				return termOf(v), true
			}}
		models[fmt.Sprintf("(*sync/atomic.%s).Store", tn)] = &Model{Visible: true, Enabled: always,
			Exec: func(cc *CallCtx, ph int) (Value, bool) {
				if v := vcell(cc); v != nil {
					cc.e.upd(cc.c, v, cc.args[1].(*Term))
				}
				return nil, true
			}}
		models[fmt.Sprintf("(*sync/atomic.%s).Add", tn)] = &Model{Visible: true, Enabled: always,
			Exec: func(cc *CallCtx, ph int) (Value, bool) {
				v := vcell(cc)
				if v == nil {
					return BV(0, w), true
				}
				nv := Add(termOf(v), cc.args[1].(*Term))
				cc.e.upd(cc.c, v, nv)
				return nv, true
			}}
		models[fmt.Sprintf("(*sync/atomic.%s).CompareAndSwap", tn)] = &Model{Visible: true, Enabled: always,
			Exec: func(cc *CallCtx, ph int) (Value, bool) {
				v := vcell(cc)
				if v == nil {
					return TS.False, true
				}
				ok := Eq(termOf(v), cc.args[1].(*Term))
				cc.e.foot.write(v.Obj, cc.c.g)
				storeCell(v, cc.args[2].(*Term), And(cc.c.g, ok))
				return ok, true
			}}
	}
}

func condWaiters(cd *Cell) *Cell { return fieldCell(fieldCell(cd, "notify"), "wait") }
func condNotify(cd *Cell) *Cell  { return fieldCell(fieldCell(cd, "notify"), "notify") }

// condTicket: the heap cell holding goroutine g's ticket for cond cd.
func (e *Engine) condTicket(cd *Cell, g *Gor) *Cell {
	k := fmt.Sprintf("ticket:%p:%d", cd, g.idx)
	if o, ok := e.objs[k]; ok {
		return o.Root
	}
	o := newObject(k)
	o.Root = &Cell{T: types.Typ[types.Uint32], Obj: cd.Obj, Val: BV(0, 32), Path: fmt.Sprintf(".ticket[g%d]", g.idx)}
	e.objs[k] = o
	return o.Root
}

// condLocker returns the mutex cell behind cond.L (nil if L is nil). A Cond's L is written once by
// NewCond (under the allocating path's guard), so a residual nil alternative from the guarded store
// is dead whenever a non-nil one exists; all non-nil alternatives must agree.
func condLocker(cc *CallCtx, cd *Cell) *Cell {
	lv := pruneRefUnder(fieldCell(cd, "L").Val.(*RefV), cc.c.g)
	var found *Cell
	for _, a := range lv.Alts {
		iv, ok := a.R.(*IfaceVal)
		if !ok {
			continue
		}
		pr := pruneRefUnder(iv.V.(*RefV), cc.c.g)
		for _, b := range pr.Alts {
			cell, ok := b.R.(*Cell)
			if !ok {
				continue
			}
			if found != nil && found != cell {
				inconclusive("cond.L not unique")
			}
			found = cell
		}
	}
	return found
}

// modelForMethod maps an interface method call on a modelled dynamic type to a model.
func (e *Engine) modelForMethod(t types.Type, name string) *Model {
	key := "(" + types.TypeString(t, nil) + ")." + name
	if m, ok := models[key]; ok {
		return m
	}
	return nil
}

func modelTypeImplements(t types.Type, it *types.Interface) (bool, bool) {
	if t == ctxModelType {
		return true, true
	}
	if t == rtypeModelType {
		// the synthetic dynamic type of reflect.Type values: implements reflect.Type (and the empty interface)
		if it.NumMethods() == 0 {
			return true, true
		}
		for i := 0; i < it.NumMethods(); i++ {
			switch it.Method(i).Name() {
			case "Kind", "String", "Elem", "ChanDir", "AssignableTo", "NumIn", "NumOut", "IsVariadic", "In", "Out":
				return true, true
			}
		}
		return false, true
	}
	return false, false
}
