package main

import (
	"fmt"
	"os"
	"path/filepath"
	"regexp"
	"sort"
	"strings"

	"golang.org/x/tools/go/packages"
	"golang.org/x/tools/go/ssa"
	"golang.org/x/tools/go/ssa/ssautil"
)

// harnessDefines: overrides of integer constants of the harness files ("const name = <int>" lines),
// used by the thorough tier to deepen data bounds without a second copy of the harness.
var harnessDefines = map[string]string{}

func applyDefines(src []byte) []byte {
	for k, v := range harnessDefines {
		re := regexp.MustCompile(`(?m)^const ` + regexp.QuoteMeta(k) + ` = \d+`)
		src = re.ReplaceAll(src, []byte("const "+k+" = "+v))
	}
	return src
}

type Loaded struct {
	Prog *ssa.Program
	Pkg  *ssa.Package
	PP   *packages.Package
}

// loadRepo loads /repo's current working tree with the harness files injected as overlay.
func loadRepo(repo string, harnessDir string, extra map[string]string) (*Loaded, error) {
	overlay := map[string][]byte{}
	files, _ := filepath.Glob(filepath.Join(harnessDir, "*.go"))
	sort.Strings(files)
	for _, f := range files {
		base := filepath.Base(f)
		if strings.HasSuffix(base, "_native.go") || strings.HasSuffix(base, "_test.go") {
			continue
		}
		b, err := os.ReadFile(f)
		if err != nil {
			return nil, err
		}
		overlay[filepath.Join(repo, "zz_verif_"+base)] = applyDefines(b)
	}
	for k, v := range extra {
		overlay[filepath.Join(repo, k)] = []byte(v)
	}
	cfg := &packages.Config{
		Mode:    packages.LoadAllSyntax,
		Dir:     repo,
		Overlay: overlay,
		Env:     append(os.Environ(), "GOFLAGS=-mod=mod", "GOPROXY=off", "GOSUMDB=off", "GOTOOLCHAIN=local"),
	}
	pkgs, err := packages.Load(cfg, ".")
	if err != nil {
		return nil, err
	}
	var errs []string
	packages.Visit(pkgs, nil, func(p *packages.Package) {
		for _, e := range p.Errors {
			errs = append(errs, e.Error())
		}
	})
	if len(errs) > 0 {
		return nil, fmt.Errorf("package load errors:\n%s", strings.Join(errs, "\n"))
	}
	prog, spkgs := ssautil.AllPackages(pkgs, ssa.InstantiateGenerics)
	prog.Build()
	return &Loaded{Prog: prog, Pkg: spkgs[0], PP: pkgs[0]}, nil
}
