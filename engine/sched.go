package main

import (
	"fmt"
	"os"
	"sort"
	"strings"

	"golang.org/x/tools/go/ssa"
)

// ---------------- footprints ----------------

type Footprint struct {
	R, W map[*Object]*Term
	By   map[*Object]map[int]bool
	gor  int
}

func newFoot() *Footprint {
	return &Footprint{R: map[*Object]*Term{}, W: map[*Object]*Term{}, By: map[*Object]map[int]bool{}}
}

func (f *Footprint) touch(o *Object) {
	m := f.By[o]
	if m == nil {
		m = map[int]bool{}
		f.By[o] = m
	}
	m[f.gor] = true
}

func (f *Footprint) read(o *Object, g *Term) {
	if f == nil || o == nil || g.IsFalse() {
		return
	}
	if old, ok := f.R[o]; ok {
		f.R[o] = Or(old, g)
	} else {
		f.R[o] = g
	}
	f.touch(o)
}

func (f *Footprint) write(o *Object, g *Term) {
	if f == nil || o == nil || g.IsFalse() {
		return
	}
	if old, ok := f.W[o]; ok {
		f.W[o] = Or(old, g)
	} else {
		f.W[o] = g
	}
	f.touch(o)
}

// ---------------- trace records ----------------

type FireRec struct {
	Phase int
	Step  int
	Gor   string
	Idx   int
	Pos   string
	Op    string
	Fire  *Term
}

type SchedInfo struct {
	T        int
	S        []*Term
	Fires    []FireRec
	AnyEn    []*Term
	AliveT   *Term
	AnyEnT   *Term
	Foots    []*Footprint
	Progress []*Term
	// resting configurations of the final state that count as "left blocked" (non-daemon, not idle-exempt)
	Final []FinalRec
}

type FinalRec struct {
	Gor int
	Pos string
	G   *Term
}

// BlockedRec: a goroutine a stuck-state counterexample leaves blocked, with its identity for the native replay.
type BlockedRec struct {
	Gor    int    `json:"gor"`
	Pos    string `json:"pos"`
	Parent int    `json:"parent"`
	Site   string `json:"site"`
	Occ    int    `json:"occ"`
}

func (e *Engine) blockedUnder(si *SchedInfo, model map[string]uint64) []BlockedRec {
	memo := map[int]uint64{}
	var out []BlockedRec
	for _, fr := range si.Final {
		if Eval(fr.G, model, memo) != 0 && fr.Gor >= 0 && fr.Gor < len(e.gors) {
			g := e.gors[fr.Gor]
			out = append(out, BlockedRec{Gor: fr.Gor, Pos: fr.Pos, Parent: g.parent, Site: g.site, Occ: g.occ})
		}
	}
	return out
}

func (e *Engine) resetAtRest(c *Config) {
	for _, f := range c.stack {
		for i := range f.loops {
			f.loops[i].unw = 0
			f.loops[i].iter = 0
		}
		// drop registers that no instruction reachable from here can read (conservative liveness):
		// fewer values to ite-merge when resting configs are merged
		live := e.usedFrom(f.fn, f.blk)
		for k := range f.regs {
			if !live[k] {
				delete(f.regs, k)
			}
		}
	}
	c.fuel = false
}

// usedFrom: values read by some instruction in a block reachable from b (including b).
func (e *Engine) usedFrom(fn *ssa.Function, b *ssa.BasicBlock) map[ssa.Value]bool {
	key := fmt.Sprintf("%p/%d", fn, b.Index)
	if m, ok := e.usedMemo[key]; ok {
		return m
	}
	m := map[ssa.Value]bool{}
	seen := map[*ssa.BasicBlock]bool{}
	st := []*ssa.BasicBlock{b}
	if fn.Recover != nil {
		st = append(st, fn.Recover)
	}
	for len(st) > 0 {
		x := st[len(st)-1]
		st = st[:len(st)-1]
		if seen[x] {
			continue
		}
		seen[x] = true
		for _, ins := range x.Instrs {
			var ops []*ssa.Value
			for _, op := range ins.Operands(ops) {
				if *op != nil {
					m[*op] = true
				}
			}
		}
		st = append(st, x.Succs...)
	}
	e.usedMemo[key] = m
	return m
}

// loopMayAlloc: may the body of the loop with header h (transitively) execute a site that names an
// object or goroutine? Such loops keep their iteration counter across transitions.
func (e *Engine) loopMayAlloc(fn *ssa.Function, h *ssa.BasicBlock) bool {
	key := fmt.Sprintf("%p/%d", fn, h.Index)
	if v, ok := e.loopAllocMemo[key]; ok {
		return v
	}
	li := e.loopInfoOf(fn)
	res := false
	for b := range li.body[h] {
		if e.blockMayAlloc(b, map[*ssa.Function]bool{fn: true}) {
			res = true
			break
		}
	}
	e.loopAllocMemo[key] = res
	return res
}

var nonAllocModels = map[string]bool{
	"(*sync.Mutex).Lock": true, "(*sync.Mutex).Unlock": true, "(*sync.Mutex).TryLock": true,
	"(*sync.RWMutex).Lock": true, "(*sync.RWMutex).Unlock": true, "(*sync.RWMutex).RLock": true, "(*sync.RWMutex).RUnlock": true,
	"(*sync.RWMutex).TryRLock": true, "(*sync.RWMutex).TryLock": true,
	"(*sync.Cond).Wait": true, "(*sync.Cond).Broadcast": true, "(*sync.Cond).Signal": true,
	"(*sync.WaitGroup).Add": true, "(*sync.WaitGroup).Done": true, "(*sync.WaitGroup).Wait": true,
	"time.Sleep": true, "time.Now": true, "time.Since": true,
}

func (e *Engine) fnMayAlloc(fn *ssa.Function, seen map[*ssa.Function]bool) bool {
	if v, ok := e.fnAllocMemo[fn]; ok {
		return v
	}
	if seen[fn] {
		return false
	}
	seen[fn] = true
	res := false
	for _, b := range fn.Blocks {
		if e.blockMayAlloc(b, seen) {
			res = true
			break
		}
	}
	e.fnAllocMemo[fn] = res
	return res
}

func (e *Engine) blockMayAlloc(b *ssa.BasicBlock, seen map[*ssa.Function]bool) bool {
	for _, ins := range b.Instrs {
		switch x := ins.(type) {
		case *ssa.Alloc, *ssa.MakeSlice, *ssa.MakeMap, *ssa.MakeChan, *ssa.Go:
			return true
		case ssa.CallInstruction:
			cm := x.Common()
			if cm.IsInvoke() {
				n := cm.Method.Name()
				if n == "Lock" || n == "Unlock" || n == "Err" || n == "Done" {
					continue
				}
				return true
			}
			switch v := cm.Value.(type) {
			case *ssa.Builtin:
				if v.Name() == "append" {
					return true
				}
			case *ssa.Function:
				name := v.String()
				if strings.HasPrefix(name, "(*sync/atomic.") || nonAllocModels[name] {
					continue
				}
				if v.Blocks == nil && strings.HasPrefix(v.Name(), "verif") {
					continue
				}
				if _, isModel := models[name]; isModel {
					return true
				}
				if len(v.Blocks) == 0 {
					return true
				}
				if e.fnMayAlloc(v, seen) {
					return true
				}
			case *ssa.MakeClosure:
				if e.fnMayAlloc(v.Fn.(*ssa.Function), seen) {
					return true
				}
			default:
				return true
			}
		}
	}
	return false
}

func (e *Engine) isIdleExempt(c *Config) bool {
	if len(c.stack) == 0 {
		return true
	}
	f := c.top()
	if f.pending != nil || f.mode != modeNormal {
		return false
	}
	if call, ok := f.blk.Instrs[f.idx].(*ssa.Call); ok {
		if fn, ok := call.Common().Value.(*ssa.Function); ok && fn.Name() == "verifAwaitAfterFunc" {
			return true
		}
	}
	return false
}

func (e *Engine) opName(c *Config) string {
	if len(c.stack) == 0 {
		return "done"
	}
	f := c.top()
	if f.pending != nil {
		return "deferred " + f.pending.Common.String()
	}
	if f.mode != modeNormal {
		return "unwinding"
	}
	s := f.blk.Instrs[f.idx].String()
	if len(s) > 80 {
		s = s[:80]
	}
	return s
}

// runHarness executes the harness function under the selected mode.
func (e *Engine) runHarness(h *ssa.Function) *SchedInfo {
	e.scanTryObserved()
	// package init (stores package-level vars)
	mainG := &Gor{idx: 0, name: "main", rest: map[string]*Config{}, doneG: TS.False, fnName: h.String()}
	e.gors = append(e.gors, mainG)
	e.gorBy["main"] = mainG
	e.step = -1
	savedMode := e.mode
	e.mode = "seq"
	if init := e.pkg.Func("init"); init != nil {
		ic := &Config{g: TS.True, gor: mainG}
		e.pushFrame(ic, init, nil, nil)
		e.work = []*Config{ic}
		e.runWork(func(c *Config) {})
	}
	e.mode = savedMode
	e.funcsSeen = map[string]int{}
	e.stubsSeen = map[string]int{}
	c0 := &Config{g: TS.True, gor: mainG}
	e.pushFrame(c0, h, nil, nil)

	if e.mode == "seq" {
		e.foot = nil
		e.work = []*Config{c0}
		e.runWork(func(c *Config) {
			if c.done {
				e.goroutineDone(c)
			}
		})
		return nil
	}

	si := &SchedInfo{T: e.T}
	arrivals := map[*Gor][]*Config{}
	restFn := func(c *Config) {
		if c.done {
			e.goroutineDone(c)
			return
		}
		e.resetAtRest(c)
		arrivals[c.gor] = append(arrivals[c.gor], c)
	}
	settle := func() {
		for g, list := range arrivals {
			for _, c := range list {
				if c.g.IsFalse() {
					continue
				}
				k := e.mergeKey(c)
				if o, ok := g.rest[k]; ok {
					e.mergeInto(o, c)
				} else {
					g.rest[k] = c
					g.order = append(g.order, k)
				}
			}
		}
		arrivals = map[*Gor][]*Config{}
		for _, g := range e.gors {
			// explosion guard: when a goroutine accumulates many resting configs, ask the solver whether each is
			// feasible at all under the scheduling constraints (in parallel on a pool of solver processes)
			if e.settleFeas > 0 && len(g.order) > e.settleFeas {
				var cs []*Config
				var gs []*Term
				for _, k := range g.order {
					c := g.rest[k]
					if c == nil || c.g.IsFalse() {
						continue
					}
					cs = append(cs, c)
					gs = append(gs, c.g)
				}
				for i, ok := range e.feasibleBatch(gs) {
					if !ok {
						cs[i].g = TS.False
					}
				}
			}
			var ord []string
			for _, k := range g.order {
				c := g.rest[k]
				if c == nil || c.g.IsFalse() || semFalse(c.g) {
					delete(g.rest, k)
					continue
				}
				ord = append(ord, k)
			}
			g.order = ord
		}
	}
	// initial prefix
	e.foot = newFoot()
	e.foot.gor = 0
	e.cur = mainG
	e.work = []*Config{c0}
	e.runWork(restFn)
	settle()

	type cand struct {
		g    *Gor
		c    *Config
		en   *Term
		fire *Term
		rd   map[*Object]*Term
	}
	for t := 0; t < e.T; t++ {
		e.step = t
		s := Var(fmt.Sprintf("s_%d", t), 8)
		si.S = append(si.S, s)
		foot := newFoot()
		var cands []cand
		anyEn := TS.False
		for _, g := range e.gors {
			for _, k := range g.order {
				c := g.rest[k]
				tmp := newFoot()
				e.foot = tmp
				en := e.opEnabled(c)
				cen := And(c.g, en)
				anyEn = Or(anyEn, cen)
				fire := And(cen, Eq(s, BV(uint64(g.idx), 8)))
				cands = append(cands, cand{g, c, en, fire, tmp.R})
			}
		}
		si.AnyEn = append(si.AnyEn, anyEn)
		if e.profile != nil {
			var sb strings.Builder
			for _, g := range e.gors {
				fmt.Fprintf(&sb, " g%d:%d", g.idx, len(g.order))
			}
			live := 0
			for _, cd := range cands {
				if !cd.fire.IsFalse() {
					live++
				}
			}
			fmt.Fprintf(os.Stderr, "step %d: resting%s firing=%d terms=%d instrs=%d feas=%d cut=%d unk=%d\n", t, sb.String(), live, TS.next, e.instrs, e.feasN, e.feasCut, e.feasUnk)
			if os.Getenv("VERIF_DUMPREST") != "" && fmt.Sprint(t) == os.Getenv("VERIF_DUMPREST") {
				for _, g := range e.gors {
					for _, k := range g.order {
						c := g.rest[k]
						fmt.Fprintf(os.Stderr, "   REST g%d %s ph=%d fn=%s(%p) depth=%d key=%s\n", g.idx, e.posOf(c), c.phase, c.top().fn.String(), c.top().fn, len(c.stack), k)
					}
				}
			}
		}
		var fires []*Term
		for _, cd := range cands {
			fires = append(fires, cd.fire)
		}
		progress := Or(fires...)
		si.Progress = append(si.Progress, progress)
		e.constraints = append(e.constraints, Or(progress, Not(anyEn)))
		e.constraints = append(e.constraints, Implies(Not(anyEn), Eq(s, BV(0, 8))))
		e.foot = foot
		for _, cd := range cands {
			if cd.fire.IsFalse() || semFalse(cd.fire) {
				continue
			}
			foot.gor = cd.g.idx
			for o := range cd.rd {
				foot.read(o, cd.fire)
			}
			foot.read(e.gorObj(cd.g), cd.fire)
			si.Fires = append(si.Fires, FireRec{Step: t, Gor: cd.g.name, Idx: cd.g.idx, Pos: e.posOf(cd.c), Op: e.opName(cd.c), Fire: cd.fire, Phase: cd.c.phase})
			fc := cd.c.clone()
			fc.g = cd.fire
			fc.fuel = true
			e.cur = cd.g
			e.work = []*Config{fc}
			e.runWork(restFn)
			cd.c.g = And(cd.c.g, Not(And(Eq(s, BV(uint64(cd.g.idx), 8)), cd.en)))
		}
		si.Foots = append(si.Foots, foot)
		settle()
	}
	// final state
	e.step = e.T
	e.foot = nil
	anyEn := TS.False
	alive := TS.False
	for _, g := range e.gors {
		for _, k := range g.order {
			c := g.rest[k]
			en := e.opEnabled(c)
			anyEn = Or(anyEn, And(c.g, en))
			if !g.daemon && !e.isIdleExempt(c) {
				alive = Or(alive, c.g)
				si.Final = append(si.Final, FinalRec{Gor: g.idx, Pos: e.posOf(c), G: c.g})
			}
		}
	}
	si.AnyEnT = anyEn
	si.AliveT = alive
	if e.maxTryFails >= 0 {
		// fairness assumption: at most this many failed Try* operations (bounded spinning)
		e.constraints = append(e.constraints, Ule(e.tryFailCount, BV(uint64(e.maxTryFails), 8)))
	}
	if e.maxDefaults >= 0 {
		// fairness assumption: schedules in which non-blocking selects fall through to default more
		// often than the stated bound are excluded
		e.constraints = append(e.constraints, Ule(e.defaultCount, BV(uint64(e.maxDefaults), 8)))
	}
	e.porConstraints(si)
	// finally functions: evaluated in quiescent final states
	if len(e.finallyFns) > 0 {
		e.mode = "seq"
		fg := &Gor{idx: len(e.gors), name: "finally", rest: map[string]*Config{}, doneG: TS.False, daemon: true}
		e.gors = append(e.gors, fg)
		for _, fv := range e.finallyFns {
			fc := &Config{g: Not(anyEn), gor: fg}
			r := fv.(*RefV)
			fn := r.Alts[0].R.(*FuncVal)
			e.pushFrame(fc, fn.Fn, nil, fn.Bindings)
			e.work = []*Config{fc}
			e.runWork(func(c *Config) {})
		}
		e.mode = "sched"
	}
	return si
}

// porConstraints adds the adjacent-swap partial-order constraint.
func (e *Engine) porConstraints(si *SchedInfo) {
	if e.noPOR {
		return
	}
	// objects touched by at least two goroutines
	touched := map[*Object]map[int]bool{}
	for _, f := range si.Foots {
		for o, m := range f.By {
			tm := touched[o]
			if tm == nil {
				tm = map[int]bool{}
				touched[o] = tm
			}
			for k := range m {
				tm[k] = true
			}
		}
	}
	for t := 0; t+1 < len(si.Foots); t++ {
		a, b := si.Foots[t], si.Foots[t+1]
		var deps []*Term
		objs := map[*Object]bool{}
		for o := range a.W {
			objs[o] = true
		}
		for o := range b.W {
			objs[o] = true
		}
		var ol []*Object
		for o := range objs {
			if len(touched[o]) >= 2 {
				ol = append(ol, o)
			}
		}
		sort.Slice(ol, func(i, j int) bool { return ol[i].ID < ol[j].ID })
		for _, o := range ol {
			wa, wb := a.W[o], b.W[o]
			ra, rb := a.R[o], b.R[o]
			if wa != nil {
				x := TS.False
				if rb != nil {
					x = Or(x, rb)
				}
				if wb != nil {
					x = Or(x, wb)
				}
				deps = append(deps, And(wa, x))
			}
			if ra != nil && wb != nil {
				deps = append(deps, And(ra, wb))
			}
		}
		dep := Or(deps...)
		e.constraints = append(e.constraints, Implies(And(Ult(si.S[t+1], si.S[t]), si.Progress[t+1]), dep))
	}
}

type SchedEntry struct {
	Pos   string `json:"pos"`
	Phase int    `json:"phase"`
	Gor   int    `json:"gor"`
	Auto  bool   `json:"auto"`
	Wake  bool   `json:"wake"` // second phase of cond.Wait: consumed natively by the wrapped Locker's Lock
	Sel   bool   `json:"sel"`  // a select: the native controller waits a little so that timers/tickers are ready
	// identity of the goroutine (see Gor): lets the native controller tell apart goroutines running the same code
	Parent int    `json:"parent"`
	Site   string `json:"site"`
	Occ    int    `json:"occ"`
}

// visiblePositions: every source position at which some goroutine rested during the unrolling, i.e. the
// positions of operations the engine treats as scheduling points in this harness.
func visiblePositions(si *SchedInfo) []string {
	seen := map[string]bool{}
	var out []string
	for _, fr := range si.Fires {
		if !seen[fr.Pos] {
			seen[fr.Pos] = true
			out = append(out, fr.Pos)
		}
	}
	for _, fr := range si.Final {
		if !seen[fr.Pos] {
			seen[fr.Pos] = true
			out = append(out, fr.Pos)
		}
	}
	return out
}

// scheduleEntries lists the fired transitions under a model for the native replay controller.
func (e *Engine) scheduleEntries(si *SchedInfo, model map[string]uint64) []SchedEntry {
	memo := map[int]uint64{}
	var out []SchedEntry
	for _, fr := range si.Fires {
		if Eval(fr.Fire, model, memo) != 0 {
			wake := fr.Phase > 0 && strings.Contains(fr.Op, "(*sync.Cond).Wait")
			auto := !wake && (fr.Phase > 0 || strings.Contains(fr.Pos, "zz_verif_ab_rt_common.go") || !strings.Contains(fr.Pos, ".go:"))
			se := SchedEntry{Pos: fr.Pos, Phase: fr.Phase, Gor: fr.Idx, Auto: auto, Wake: wake, Sel: strings.HasPrefix(fr.Op, "select")}
			if fr.Idx >= 0 && fr.Idx < len(e.gors) {
				g := e.gors[fr.Idx]
				se.Parent, se.Site, se.Occ = g.parent, g.site, g.occ
			}
			out = append(out, se)
		}
	}
	return out
}

// describeSchedule renders the fired transitions under a model.
func (e *Engine) describeSchedule(si *SchedInfo, model map[string]uint64) []string {
	memo := map[int]uint64{}
	var out []string
	for _, fr := range si.Fires {
		if Eval(fr.Fire, model, memo) != 0 {
			out = append(out, fmt.Sprintf("t=%d g%d %s @%s: %s", fr.Step, fr.Idx, shortGor(fr.Gor), fr.Pos, fr.Op))
		}
	}
	return out
}

func shortGor(n string) string {
	if i := strings.Index(n, "@"); i >= 0 {
		n = n[:i]
	}
	return n
}
