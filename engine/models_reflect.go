package main

// reflect: contract stubs. reflect.Value is carried as its real 3-field struct shape
// {typ: ref(TypeRef)|nil, ptr: the underlying engine value, flag: kind number}; reflect.Type is an
// interface value whose dynamic type is the synthetic verifRType holding a TypeRef. Type relations
// (AssignableTo, Kind, Elem, ...) are answered by go/types on the static types.

import (
	"fmt"
	"go/token"
	"go/types"

	"golang.org/x/tools/go/ssa"
)

type TypeRef struct{ T types.Type }

var rtypeModelType types.Type

func init() {
	tn := types.NewTypeName(token.NoPos, nil, "verifRType", nil)
	rtypeModelType = types.NewNamed(tn, types.NewStruct(nil, nil), nil)
}

var typeRefs = map[string]*TypeRef{}

func typeRefOf(t types.Type) *TypeRef {
	k := types.TypeString(t, nil)
	if r, ok := typeRefs[k]; ok {
		return r
	}
	r := &TypeRef{T: t}
	typeRefs[k] = r
	return r
}

func kindOf(t types.Type) uint64 {
	switch u := t.Underlying().(type) {
	case *types.Basic:
		switch u.Kind() {
		case types.Bool:
			return 1
		case types.Int:
			return 2
		case types.Int8:
			return 3
		case types.Int16:
			return 4
		case types.Int32:
			return 5
		case types.Int64:
			return 6
		case types.Uint:
			return 7
		case types.Uint8:
			return 8
		case types.Uint16:
			return 9
		case types.Uint32:
			return 10
		case types.Uint64:
			return 11
		case types.Uintptr:
			return 12
		case types.Float32:
			return 13
		case types.Float64:
			return 14
		case types.String:
			return 24
		case types.UnsafePointer:
			return 26
		}
	case *types.Array:
		return 17
	case *types.Chan:
		return 18
	case *types.Signature:
		return 19
	case *types.Interface:
		return 20
	case *types.Map:
		return 21
	case *types.Pointer:
		return 22
	case *types.Slice:
		return 23
	case *types.Struct:
		return 25
	}
	return 0
}

func rtypeIface(t types.Type) Value {
	return refTo(&IfaceVal{T: rtypeModelType, V: refTo(typeRefOf(t))})
}

func mkReflectValue(t types.Type, v Value) *StructV {
	return &StructV{F: []Value{refTo(typeRefOf(t)), v, BV(kindOf(t), 64)}}
}

func zeroReflectValue() *StructV {
	return &StructV{F: []Value{nilRef(), BV(0, 64), BV(0, 64)}}
}

// rvType returns the static type of a reflect.Value (nil if invalid / not unique).
func rvType(cc *CallCtx, v Value) types.Type {
	s := v.(*StructV)
	r := pruneRefUnder(s.F[0].(*RefV), cc.c.g)
	if len(r.Alts) != 1 {
		inconclusive("reflect.Value with non-unique type at %s", cc.e.posOf(cc.c))
	}
	tr, ok := r.Alts[0].R.(*TypeRef)
	if !ok {
		return nil
	}
	return tr.T
}

// typeArg returns the types.Type behind a reflect.Type receiver (inner RefV of TypeRef).
func typeArg(cc *CallCtx, v Value) types.Type {
	r := pruneRefUnder(v.(*RefV), cc.c.g)
	if len(r.Alts) != 1 {
		inconclusive("reflect.Type not unique at %s", cc.e.posOf(cc.c))
	}
	switch x := r.Alts[0].R.(type) {
	case *TypeRef:
		return x.T
	case *IfaceVal:
		return typeArg(cc, x.V)
	}
	return nil
}

// forkArg makes argument i (an interface/reference value) unique by forking on its alternatives.
// Returns false when the config was consumed.
func (cc *CallCtx) forkArg(i int) bool {
	rv, ok := cc.args[i].(*RefV)
	if !ok {
		return true
	}
	if len(pruneRefUnder(rv, cc.c.g).Alts) <= 1 {
		return true
	}
	if cc.site.Call == nil {
		inconclusive("cannot fork on a deferred call argument")
	}
	cm := cc.site.Common
	ai := i
	if cm.IsInvoke() {
		ai = i - 1
	}
	if ai < 0 || ai >= len(cm.Args) {
		inconclusive("forkArg index")
	}
	_, single := cc.e.concretizeReg(cc.c, cc.f, cm.Args[ai])
	return single
}

func init() {
	always := func(cc *CallCtx, ph int) *Term { return TS.True }
	models["reflect.ValueOf"] = &Model{Takeover: func(cc *CallCtx) bool {
		if !cc.forkArg(0) {
			return false
		}
		r := pruneRefUnder(cc.args[0].(*RefV), cc.c.g)
		if len(r.Alts) == 0 {
			cc.c.g = TS.False
			return false
		}
		iv, ok := r.Alts[0].R.(*IfaceVal)
		if !ok {
			cc.finish(zeroReflectValue())
			return true
		}
		cc.finish(mkReflectValue(iv.T, iv.V))
		return true
	}}
	models["reflect.TypeOf"] = &Model{Takeover: func(cc *CallCtx) bool {
		if !cc.forkArg(0) {
			return false
		}
		r := pruneRefUnder(cc.args[0].(*RefV), cc.c.g)
		if len(r.Alts) == 0 {
			cc.c.g = TS.False
			return false
		}
		iv, ok := r.Alts[0].R.(*IfaceVal)
		if !ok {
			cc.finish(nilRef())
			return true
		}
		cc.finish(rtypeIface(iv.T))
		return true
	}}
	models["(reflect.Value).Kind"] = &Model{Plain: func(cc *CallCtx) Value { return cc.args[0].(*StructV).F[2] }}
	models["(reflect.Value).IsValid"] = &Model{Plain: func(cc *CallCtx) Value {
		return Not(Eq(cc.args[0].(*StructV).F[2].(*Term), BV(0, 64)))
	}}
	models["(reflect.Value).Type"] = &Model{Plain: func(cc *CallCtx) Value {
		t := rvType(cc, cc.args[0])
		if t == nil {
			cc.e.raise(cc.c, TS.True, "reflect: call of reflect.Value.Type on zero Value")
			return nilRef()
		}
		return rtypeIface(t)
	}}
	models["(reflect.Value).Interface"] = &Model{Plain: func(cc *CallCtx) Value {
		t := rvType(cc, cc.args[0])
		if t == nil {
			cc.e.raise(cc.c, TS.True, "reflect: call of reflect.Value.Interface on zero Value")
			return nilRef()
		}
		v := cc.args[0].(*StructV).F[1]
		if _, isI := t.Underlying().(*types.Interface); isI {
			return v
		}
		return refTo(&IfaceVal{T: t, V: v})
	}}
	models["(reflect.Value).Pointer"] = &Model{Plain: func(cc *CallCtx) Value {
		t := rvType(cc, cc.args[0])
		if t == nil {
			cc.e.raise(cc.c, TS.True, "reflect: call of reflect.Value.Pointer on zero Value")
			return BV(0, 64)
		}
		res := BV(0, 64)
		r, ok := cc.args[0].(*StructV).F[1].(*RefV)
		if !ok {
			cc.e.raise(cc.c, TS.True, "reflect: call of reflect.Value.Pointer on non-pointer kind")
			return res
		}
		for _, a := range r.Alts {
			var id int
			switch x := a.R.(type) {
			case *ChanObj:
				id = x.Obj.ID
			case *MapObj:
				id = x.Obj.ID
			case *Cell:
				id = x.Obj.ID*1000 + len(x.Path)
			case *FuncVal:
				id = 7
			}
			res = Ite(a.G, BV(uint64(id)*16, 64), res)
		}
		return res
	}}
	models["(reflect.Value).IsNil"] = &Model{Plain: func(cc *CallCtx) Value {
		t := rvType(cc, cc.args[0])
		if t == nil {
			cc.e.raise(cc.c, TS.True, "reflect: call of reflect.Value.IsNil on zero Value")
			return TS.False
		}
		switch t.Underlying().(type) {
		case *types.Chan, *types.Signature, *types.Interface, *types.Map, *types.Pointer, *types.Slice:
		default:
			cc.e.raise(cc.c, TS.True, "reflect: call of reflect.Value.IsNil on non-nilable kind")
			return TS.False
		}
		switch v := cc.args[0].(*StructV).F[1].(type) {
		case *RefV:
			return isNilTerm(v)
		case *SliceV:
			return isNilTerm(v.Base)
		}
		return TS.False
	}}
	models["(reflect.Value).TryRecv"] = &Model{Visible: true, Enabled: always,
		Exec: func(cc *CallCtx, ph int) (Value, bool) {
			t := rvType(cc, cc.args[0])
			if t == nil {
				cc.e.raise(cc.c, TS.True, "reflect: call of reflect.Value.TryRecv on zero Value")
				return &StructV{F: []Value{zeroReflectValue(), TS.False}}, true
			}
			ct, ok := t.Underlying().(*types.Chan)
			if !ok {
				cc.e.raise(cc.c, TS.True, "reflect: TryRecv on non-chan")
				return &StructV{F: []Value{zeroReflectValue(), TS.False}}, true
			}
			ch, ok := cc.e.chanOf(cc.c, cc.args[0].(*StructV).F[1].(*RefV))
			if !ok {
				return &StructV{F: []Value{zeroReflectValue(), TS.False}}, true
			}
			ready := cc.e.recvReady(cc.c, ch)
			base := cc.c.g
			cc.c.g = And(base, ready)
			var v Value = zeroValue(ct.Elem())
			got := TS.False
			if !cc.c.g.IsFalse() {
				v2, ok2 := cc.e.doRecv(cc.c, ch)
				v = iteValue(ready, v2, v)
				got = And(ready, ok2)
			}
			cc.c.g = base
			// would block: (zero Value, false); closed: (zero of elem, false); else (value, true)
			rvv := mkReflectValue(ct.Elem(), v)
			res := iteValue(ready, rvv, zeroReflectValue())
			return &StructV{F: []Value{res, got}}, true
		}}

	// ---- reflect.Type methods (invoked through the interface) ----
	tm := func(name string, f func(cc *CallCtx, t types.Type) Value) {
		models["(verifRType)."+name] = &Model{Plain: func(cc *CallCtx) Value {
			t := typeArg(cc, cc.args[0])
			if t == nil {
				cc.e.raise(cc.c, TS.True, "nil pointer dereference (method call on nil reflect.Type)")
				return nil
			}
			return f(cc, t)
		}}
	}
	tm("Kind", func(cc *CallCtx, t types.Type) Value { return BV(kindOf(t), 64) })
	tm("String", func(cc *CallCtx, t types.Type) Value { return mkStr(types.TypeString(t, nil)) })
	tm("Elem", func(cc *CallCtx, t types.Type) Value {
		switch u := t.Underlying().(type) {
		case *types.Chan:
			return rtypeIface(u.Elem())
		case *types.Pointer:
			return rtypeIface(u.Elem())
		case *types.Slice:
			return rtypeIface(u.Elem())
		case *types.Array:
			return rtypeIface(u.Elem())
		case *types.Map:
			return rtypeIface(u.Elem())
		}
		cc.e.raise(cc.c, TS.True, "reflect: Elem of invalid type")
		return nilRef()
	})
	tm("ChanDir", func(cc *CallCtx, t types.Type) Value {
		u, ok := t.Underlying().(*types.Chan)
		if !ok {
			cc.e.raise(cc.c, TS.True, "reflect: ChanDir of non-chan type")
			return BV(0, 64)
		}
		switch u.Dir() {
		case types.RecvOnly:
			return BV(1, 64)
		case types.SendOnly:
			return BV(2, 64)
		}
		return BV(3, 64)
	})
	tm("AssignableTo", func(cc *CallCtx, t types.Type) Value {
		u := typeArg(cc, cc.args[1])
		if u == nil {
			cc.e.raise(cc.c, TS.True, "reflect: nil type passed to Type.AssignableTo")
			return TS.False
		}
		return BoolT(types.AssignableTo(t, u))
	})
	sig := func(cc *CallCtx, t types.Type) *types.Signature {
		s, ok := t.Underlying().(*types.Signature)
		if !ok {
			cc.e.raise(cc.c, TS.True, "reflect: func-only method of non-func type")
			return nil
		}
		return s
	}
	tm("NumIn", func(cc *CallCtx, t types.Type) Value {
		if s := sig(cc, t); s != nil {
			return BV(uint64(s.Params().Len()), 64)
		}
		return BV(0, 64)
	})
	tm("NumOut", func(cc *CallCtx, t types.Type) Value {
		if s := sig(cc, t); s != nil {
			return BV(uint64(s.Results().Len()), 64)
		}
		return BV(0, 64)
	})
	tm("IsVariadic", func(cc *CallCtx, t types.Type) Value {
		if s := sig(cc, t); s != nil {
			return BoolT(s.Variadic())
		}
		return TS.False
	})
	inout := func(in bool) func(cc *CallCtx, t types.Type) Value {
		return func(cc *CallCtx, t types.Type) Value {
			s := sig(cc, t)
			if s == nil {
				return nilRef()
			}
			i, ok := cc.args[1].(*Term)
			if !ok || !i.IsConst() {
				inconclusive("reflect.Type.In/Out with symbolic index")
			}
			tup := s.Results()
			if in {
				tup = s.Params()
			}
			if int(i.val) >= tup.Len() {
				cc.e.raise(cc.c, TS.True, "reflect: Func index out of bounds")
				return nilRef()
			}
			return rtypeIface(tup.At(int(i.val)).Type())
		}
	}
	tm("In", inout(true))
	tm("Out", inout(false))
}

var _ = fmt.Sprintf
var _ ssa.Value
