package main

// reflect: contract stubs. reflect.Value is carried as its real 3-field struct shape
// {typ: ref(TypeRef)|nil, ptr: the underlying engine value, flag: kind number}; reflect.Type is an
// interface value whose dynamic type is the synthetic verifRType holding a TypeRef. Type relations
// (AssignableTo, Kind, Elem, ...) are answered by go/types on the static types.

import (
	"fmt"
	"go/token"
	"go/types"

	"golang.org/x/tools/go/ssa"
)

type TypeRef struct{ T types.Type }

var rtypeModelType types.Type

func init() {
	tn := types.NewTypeName(token.NoPos, nil, "verifRType", nil)
	rtypeModelType = types.NewNamed(tn, types.NewStruct(nil, nil), nil)
}

var typeRefs = map[string]*TypeRef{}

func typeRefOf(t types.Type) *TypeRef {
	k := types.TypeString(t, nil)
	if r, ok := typeRefs[k]; ok {
		return r
	}
	r := &TypeRef{T: t}
	typeRefs[k] = r
	return r
}

func kindOf(t types.Type) uint64 {
	switch u := t.Underlying().(type) {
	case *types.Basic:
		switch u.Kind() {
		case types.Bool:
			return 1
		case types.Int:
			return 2
		case types.Int8:
			return 3
		case types.Int16:
			return 4
		case types.Int32:
			return 5
		case types.Int64:
			return 6
		case types.Uint:
			return 7
		case types.Uint8:
			return 8
		case types.Uint16:
			return 9
		case types.Uint32:
			return 10
		case types.Uint64:
			return 11
		case types.Uintptr:
			return 12
		case types.Float32:
			return 13
		case types.Float64:
			return 14
		case types.String:
			return 24
		case types.UnsafePointer:
			return 26
		}
	case *types.Array:
		return 17
	case *types.Chan:
		return 18
	case *types.Signature:
		return 19
	case *types.Interface:
		return 20
	case *types.Map:
		return 21
	case *types.Pointer:
		return 22
	case *types.Slice:
		return 23
	case *types.Struct:
		return 25
	}
	return 0
}

func rtypeIface(t types.Type) Value {
	return refTo(&IfaceVal{T: rtypeModelType, V: refTo(typeRefOf(t))})
}

// the payload is boxed (ref -> IfaceVal{T, V}) so that every reflect.Value has the same shape and can
// be ite-merged / stored under symbolic guards
func mkReflectValue(t types.Type, v Value) *StructV {
	return &StructV{F: []Value{refTo(typeRefOf(t)), refTo(&IfaceVal{T: t, V: v}), BV(kindOf(t), 64)}}
}

// rvIndir: flag bit of an addressable Value (the result of Elem on a pointer): its payload box holds the
// ADDRESS of the variable; reads go through it, Set stores through it (reflect's flagIndir).
const rvIndir = 1 << 8

func mkIndirValue(t types.Type, ptr *RefV) *StructV {
	return &StructV{F: []Value{refTo(typeRefOf(t)), refTo(&IfaceVal{T: t, V: ptr}), BV(kindOf(t)|rvIndir, 64)}}
}

func rvIsIndir(sv Value) bool {
	f, ok := sv.(*StructV).F[2].(*Term)
	if !ok {
		return false
	}
	if f.IsConst() {
		return f.val&rvIndir != 0
	}
	// a merged flag word: addressable on every path or on none
	leaves, ok := constLeaves(f, 64)
	if !ok {
		inconclusive("reflect.Value flag word is not a choice among constants")
	}
	n, valid := 0, 0
	for _, l := range leaves {
		if l == 0 {
			continue // the zero Value (not valid) on that path
		}
		valid++
		if l&rvIndir != 0 {
			n++
		}
	}
	if n != 0 && n != valid {
		inconclusive("reflect.Value is addressable on some paths only")
	}
	return n != 0
}

// rvAddr: the address held by an addressable Value (nil if not addressable).
func rvAddr(sv Value, g *Term) *RefV {
	if !rvIsIndir(sv) {
		return nil
	}
	r := pruneRefUnder(sv.(*StructV).F[1].(*RefV), g)
	if len(r.Alts) != 1 {
		return nil
	}
	if iv, ok := r.Alts[0].R.(*IfaceVal); ok {
		if p, ok := iv.V.(*RefV); ok {
			return p
		}
	}
	return nil
}

func zeroReflectValue() *StructV {
	return &StructV{F: []Value{nilRef(), nilRef(), BV(0, 64)}}
}

// rvInner unboxes the payload of a reflect.Value under guard g.
func rvInner(sv Value, g *Term) Value {
	r := pruneRefUnder(sv.(*StructV).F[1].(*RefV), g)
	if len(r.Alts) > 1 {
		// a slot of a case list may hold a valid Value on some paths and the zero Value on others; the
		// correlation with the case direction is data-dependent, so prefer the valid alternative(s)
		var nn []RefAlt
		for _, a := range r.Alts {
			if _, ok := a.R.(*IfaceVal); ok {
				nn = append(nn, a)
			}
		}
		if len(nn) == 1 {
			r = &RefV{Alts: nn}
		}
	}
	if len(r.Alts) != 1 {
		inconclusive("reflect.Value payload not unique: %s", valStr(r))
	}
	iv, ok := r.Alts[0].R.(*IfaceVal)
	if !ok {
		return nilRef()
	}
	if rvIsIndir(sv) {
		// addressable: the current value of the variable
		p, ok := iv.V.(*RefV)
		if !ok {
			inconclusive("addressable reflect.Value without an address")
		}
		var res Value
		for i := len(p.Alts) - 1; i >= 0; i-- {
			cell, ok := p.Alts[i].R.(*Cell)
			if !ok {
				continue
			}
			v := loadCell(cell)
			if res == nil {
				res = v
			} else {
				res = iteValue(p.Alts[i].G, v, res)
			}
		}
		if res == nil {
			inconclusive("addressable reflect.Value with a nil address")
		}
		return res
	}
	return iv.V
}

// rvType returns the static type of a reflect.Value (nil if invalid / not unique).
func rvType(cc *CallCtx, v Value) types.Type {
	s := v.(*StructV)
	r := pruneRefUnder(s.F[0].(*RefV), cc.c.g)
	if len(r.Alts) > 1 && cc.site.Call != nil && !cc.site.Common.IsInvoke() && len(cc.site.Common.Args) > 0 {
		// fork on the type of the Value argument: each clone re-executes the call
		var reg ssa.Value
		for _, a := range cc.site.Common.Args {
			if cc.f.regs[a] == v {
				reg = a
				break
			}
		}
		if reg != nil {
			for _, a := range r.Alts {
				n := cc.c.clone()
				n.g = And(cc.c.g, a.G)
				ns := &StructV{F: append([]Value(nil), s.F...)}
				ns.F[0] = &RefV{Alts: []RefAlt{{TS.True, a.R}}}
				ns.F[1] = pruneRefUnder(s.F[1].(*RefV), n.g)
				if t, ok := s.F[2].(*Term); ok {
					ns.F[2] = restrictTerm(t, n.g)
				}
				nf := n.top()
				nf.regs[reg] = ns
				if !(nf.opTagBlk == nf.blk.Index && nf.opTagIdx == nf.idx) {
					nf.opTag = ""
				}
				nf.opTag += "rv:" + refIdent(a.R) + ";"
				nf.opTagBlk, nf.opTagIdx = nf.blk.Index, nf.idx
				cc.e.enqueue(n)
			}
			cc.c.g = TS.False
			return nil
		}
	}
	if len(r.Alts) != 1 {
		inconclusive("reflect.Value with non-unique type at %s", cc.e.posOf(cc.c))
	}
	tr, ok := r.Alts[0].R.(*TypeRef)
	if !ok {
		return nil
	}
	return tr.T
}

// typeArg returns the types.Type behind a reflect.Type receiver (inner RefV of TypeRef).
func typeArg(cc *CallCtx, v Value) types.Type {
	r := pruneRefUnder(v.(*RefV), cc.c.g)
	if len(r.Alts) != 1 {
		inconclusive("reflect.Type not unique at %s", cc.e.posOf(cc.c))
	}
	switch x := r.Alts[0].R.(type) {
	case *TypeRef:
		return x.T
	case *IfaceVal:
		return typeArg(cc, x.V)
	}
	return nil
}

// forkArg makes argument i (an interface/reference value) unique by forking on its alternatives.
// Returns false when the config was consumed.
func (cc *CallCtx) forkArg(i int) bool {
	rv, ok := cc.args[i].(*RefV)
	if !ok {
		return true
	}
	if len(pruneRefUnder(rv, cc.c.g).Alts) <= 1 {
		return true
	}
	if cc.site.Call == nil {
		inconclusive("cannot fork on a deferred call argument")
	}
	cm := cc.site.Common
	ai := i
	if cm.IsInvoke() {
		ai = i - 1
		if i == 0 {
			_, single := cc.e.concretizeReg(cc.c, cc.f, cm.Value)
			return single
		}
	}
	if ai < 0 || ai >= len(cm.Args) {
		inconclusive("forkArg index")
	}
	_, single := cc.e.concretizeReg(cc.c, cc.f, cm.Args[ai])
	return single
}

func init() {
	always := func(cc *CallCtx, ph int) *Term { return TS.True }
	models["reflect.ValueOf"] = &Model{Takeover: func(cc *CallCtx) bool {
		if !cc.forkArg(0) {
			return false
		}
		r := pruneRefUnder(cc.args[0].(*RefV), cc.c.g)
		if len(r.Alts) == 0 {
			cc.c.g = TS.False
			return false
		}
		iv, ok := r.Alts[0].R.(*IfaceVal)
		if !ok {
			cc.finish(zeroReflectValue())
			return true
		}
		cc.finish(mkReflectValue(iv.T, iv.V))
		return true
	}}
	models["reflect.TypeOf"] = &Model{Takeover: func(cc *CallCtx) bool {
		if !cc.forkArg(0) {
			return false
		}
		r := pruneRefUnder(cc.args[0].(*RefV), cc.c.g)
		if len(r.Alts) == 0 {
			cc.c.g = TS.False
			return false
		}
		iv, ok := r.Alts[0].R.(*IfaceVal)
		if !ok {
			cc.finish(nilRef())
			return true
		}
		cc.finish(rtypeIface(iv.T))
		return true
	}}
	models["(reflect.Value).Kind"] = &Model{Plain: func(cc *CallCtx) Value {
		f := cc.args[0].(*StructV).F[2].(*Term)
		if f.IsConst() {
			return BV(f.val&0xff, 64)
		}
		return BvAnd(f, BV(0xff, 64))
	}}
	models["(reflect.Value).IsValid"] = &Model{Plain: func(cc *CallCtx) Value {
		return Not(Eq(cc.args[0].(*StructV).F[2].(*Term), BV(0, 64)))
	}}
	models["(reflect.Value).Type"] = &Model{Plain: func(cc *CallCtx) Value {
		t := rvType(cc, cc.args[0])
		if t == nil {
			cc.e.raise(cc.c, TS.True, "reflect: call of reflect.Value.Type on zero Value")
			return nilRef()
		}
		return rtypeIface(t)
	}}
	models["(reflect.Value).Interface"] = &Model{Plain: func(cc *CallCtx) Value {
		t := rvType(cc, cc.args[0])
		if t == nil {
			cc.e.raise(cc.c, TS.True, "reflect: call of reflect.Value.Interface on zero Value")
			return nilRef()
		}
		v := rvInner(cc.args[0], cc.c.g)
		if _, isI := t.Underlying().(*types.Interface); isI {
			return v
		}
		return refTo(&IfaceVal{T: t, V: v})
	}}
	// Value.Elem of a pointer: the pointed-to variable's current value, typed by the pointer's element type
	// (the zero Value for a nil pointer); Elem of an interface-kind Value is not modelled.
	models["(reflect.Value).Elem"] = &Model{Plain: func(cc *CallCtx) Value {
		t := rvType(cc, cc.args[0])
		if t == nil {
			cc.e.raise(cc.c, TS.True, "reflect: call of reflect.Value.Elem on zero Value")
			return zeroReflectValue()
		}
		pt, ok := t.Underlying().(*types.Pointer)
		if !ok {
			if _, isI := t.Underlying().(*types.Interface); isI {
				inconclusive("reflect.Value.Elem of an interface-kind Value is not modelled")
			}
			cc.e.raise(cc.c, TS.True, "reflect: call of reflect.Value.Elem on non-pointer Value")
			return zeroReflectValue()
		}
		p, ok := rvInner(cc.args[0], cc.c.g).(*RefV)
		if !ok {
			inconclusive("reflect.Value.Elem: pointer payload is %T", rvInner(cc.args[0], cc.c.g))
		}
		isNil := isNilTerm(p)
		if isNil.IsTrue() {
			return zeroReflectValue()
		}
		if !isNil.IsFalse() {
			// possibly nil: fall back to a by-value result (the code in scope checks IsNil first)
			base := cc.c.g
			cc.c.g = And(base, Not(isNil))
			v := cc.e.load(cc.c, p)
			cc.c.g = base
			return iteValue(isNil, zeroReflectValue(), mkReflectValue(pt.Elem(), v))
		}
		return mkIndirValue(pt.Elem(), p)
	}}
	// reflect.New(t): a pointer Value to a fresh zero variable of type t
	models["reflect.New"] = &Model{Takeover: func(cc *CallCtx) bool {
		if !cc.forkArg(0) {
			return false
		}
		t := typeArg(cc, cc.args[0])
		if t == nil {
			cc.e.raise(cc.c, TS.True, "reflect: New(nil)")
			return false
		}
		cell := cc.e.allocCell(cc.c, t, "reflect.New:"+types.TypeString(t, nil))
		storeCell(cell, zeroValue(t), cc.c.g)
		cc.finish(mkReflectValue(types.NewPointer(t), refTo(cell)))
		return true
	}}
	// Value.Set(x): store x into the variable an addressable Value denotes; x's type must be assignable
	models["(reflect.Value).Set"] = &Model{Plain: func(cc *CallCtx) Value {
		t := rvType(cc, cc.args[0])
		if cc.c.g.IsFalse() {
			return nil
		}
		addr := rvAddr(cc.args[0], cc.c.g)
		if addr == nil || t == nil {
			cc.e.raise(cc.c, TS.True, "reflect: reflect.Value.Set using unaddressable value")
			return nil
		}
		xt := rvType(cc, cc.args[1])
		if cc.c.g.IsFalse() {
			return nil
		}
		if xt == nil {
			cc.e.raise(cc.c, TS.True, "reflect: call of reflect.Value.Set on zero Value")
			return nil
		}
		if !types.AssignableTo(xt, t) {
			cc.e.raise(cc.c, TS.True, "reflect.Set: value of type "+types.TypeString(xt, nil)+" is not assignable to type "+types.TypeString(t, nil))
			return nil
		}
		x := rvInner(cc.args[1], cc.c.g)
		_, dstI := t.Underlying().(*types.Interface)
		_, srcI := xt.Underlying().(*types.Interface)
		if dstI && !srcI {
			x = refTo(&IfaceVal{T: xt, V: x}) // boxing a concrete value into an interface variable
		}
		cc.e.store(cc.c, addr, x)
		return nil
	}}
	// Value.Call: only for functions made by reflect.MakeFunc (runs the function given to MakeFunc on the
	// argument Values, which is MakeFunc's contract) - an ordinary function value is not modelled here.
	models["(reflect.Value).Call"] = &Model{Takeover: func(cc *CallCtx) bool {
		t := rvType(cc, cc.args[0])
		if cc.c.g.IsFalse() {
			return false
		}
		if t == nil {
			cc.e.raise(cc.c, TS.True, "reflect: call of reflect.Value.Call on zero Value")
			return false
		}
		fr, ok := rvInner(cc.args[0], cc.c.g).(*RefV)
		if !ok {
			inconclusive("reflect.Value.Call on a non-function payload")
		}
		fr = pruneRefUnder(fr, cc.c.g)
		if len(fr.Alts) != 1 {
			inconclusive("reflect.Value.Call: function not unique")
		}
		fv, ok := fr.Alts[0].R.(*FuncVal)
		if !ok {
			cc.e.raise(cc.c, TS.True, "reflect: call of nil function")
			return false
		}
		if fv.Model != "reflect.MakeFunc.result" || len(fv.Data) != 1 {
			inconclusive("reflect.Value.Call is modelled only for functions made by reflect.MakeFunc")
		}
		site := cc
		cc.e.callValue(cc.c, fv.Data[0], []Value{cc.args[1]}, func(e *Engine, c2 *Config, res Value) {
			site.c = c2
			site.finish(res)
		}, nil)
		return true
	}}
	models["(reflect.Value).Pointer"] = &Model{Plain: func(cc *CallCtx) Value {
		t := rvType(cc, cc.args[0])
		if t == nil {
			cc.e.raise(cc.c, TS.True, "reflect: call of reflect.Value.Pointer on zero Value")
			return BV(0, 64)
		}
		res := BV(0, 64)
		r, ok := rvInner(cc.args[0], cc.c.g).(*RefV)
		if !ok {
			cc.e.raise(cc.c, TS.True, "reflect: call of reflect.Value.Pointer on non-pointer kind")
			return res
		}
		for _, a := range r.Alts {
			var id int
			switch x := a.R.(type) {
			case *ChanObj:
				id = x.Obj.ID
			case *MapObj:
				id = x.Obj.ID
			case *Cell:
				id = x.Obj.ID*1000 + len(x.Path)
			case *FuncVal:
				id = 7
			}
			res = Ite(a.G, BV(uint64(id)*16, 64), res)
		}
		return res
	}}
	models["(reflect.Value).IsNil"] = &Model{Plain: func(cc *CallCtx) Value {
		t := rvType(cc, cc.args[0])
		if t == nil {
			cc.e.raise(cc.c, TS.True, "reflect: call of reflect.Value.IsNil on zero Value")
			return TS.False
		}
		switch t.Underlying().(type) {
		case *types.Chan, *types.Signature, *types.Interface, *types.Map, *types.Pointer, *types.Slice:
		default:
			cc.e.raise(cc.c, TS.True, "reflect: call of reflect.Value.IsNil on non-nilable kind")
			return TS.False
		}
		switch v := rvInner(cc.args[0], cc.c.g).(type) {
		case *RefV:
			return isNilTerm(v)
		case *SliceV:
			return isNilTerm(v.Base)
		}
		return TS.False
	}}
	// Value.IsZero: the value equals the zero value of its type (basic, pointer, interface and the
	// nil-able reference kinds; composite kinds are not modelled)
	models["(reflect.Value).IsZero"] = &Model{Plain: func(cc *CallCtx) Value {
		t := rvType(cc, cc.args[0])
		if cc.c.g.IsFalse() {
			return TS.False
		}
		if t == nil {
			cc.e.raise(cc.c, TS.True, "reflect: call of reflect.Value.IsZero on zero Value")
			return TS.False
		}
		v := rvInner(cc.args[0], cc.c.g)
		switch t.Underlying().(type) {
		case *types.Basic:
			return cc.e.binop(cc.c, token.EQL, v, zeroValue(t), t, types.Typ[types.Bool])
		case *types.Chan, *types.Signature, *types.Interface, *types.Map, *types.Pointer, *types.Slice:
			switch x := v.(type) {
			case *RefV:
				return isNilTerm(x)
			case *SliceV:
				return isNilTerm(x.Base)
			}
			return TS.False
		}
		inconclusive("reflect.Value.IsZero of %s is not modelled", types.TypeString(t, nil))
		return TS.False
	}}
	models["(reflect.Value).TryRecv"] = &Model{Visible: true, Enabled: always,
		Exec: func(cc *CallCtx, ph int) (Value, bool) {
			t := rvType(cc, cc.args[0])
			if t == nil {
				cc.e.raise(cc.c, TS.True, "reflect: call of reflect.Value.TryRecv on zero Value")
				return &StructV{F: []Value{zeroReflectValue(), TS.False}}, true
			}
			ct, ok := t.Underlying().(*types.Chan)
			if !ok {
				cc.e.raise(cc.c, TS.True, "reflect: TryRecv on non-chan")
				return &StructV{F: []Value{zeroReflectValue(), TS.False}}, true
			}
			ch, ok := cc.e.chanOf(cc.c, rvInner(cc.args[0], cc.c.g).(*RefV))
			if !ok {
				return &StructV{F: []Value{zeroReflectValue(), TS.False}}, true
			}
			ready := cc.e.recvReady(cc.c, ch)
			base := cc.c.g
			cc.c.g = And(base, ready)
			var v Value = zeroValue(ct.Elem())
			got := TS.False
			if !cc.c.g.IsFalse() {
				v2, ok2 := cc.e.doRecv(cc.c, ch)
				v = iteValue(ready, v2, v)
				got = And(ready, ok2)
			}
			cc.c.g = base
			// would block: (zero Value, false); closed: (zero of elem, false); else (value, true)
			rvv := mkReflectValue(ct.Elem(), v)
			res := iteValue(ready, rvv, zeroReflectValue())
			return &StructV{F: []Value{res, got}}, true
		}}

	// ---- reflect.FuncOf / reflect.MakeFunc: opaque. The function type built from symbolic type lists and
	// the function made from it are never inspected by the code in scope before reflect.Value.Call (which is
	// not modelled): FuncOf yields the placeholder type func(), MakeFunc a non-nil function value of the
	// given type whose body is unknown.
	opaqueSig := types.NewSignatureType(nil, nil, nil, nil, nil, false)
	models["reflect.FuncOf"] = &Model{Plain: func(cc *CallCtx) Value { return rtypeIface(opaqueSig) }}
	models["reflect.MakeFunc"] = &Model{Takeover: func(cc *CallCtx) bool {
		if !cc.forkArg(0) {
			return false
		}
		t := typeArg(cc, cc.args[0])
		if t == nil {
			cc.e.raise(cc.c, TS.True, "reflect: nil type passed to MakeFunc")
			return false
		}
		if _, ok := t.Underlying().(*types.Signature); !ok {
			cc.e.raise(cc.c, TS.True, "reflect: call of MakeFunc with non-Func type")
			return false
		}
		cc.finish(mkReflectValue(t, refTo(&FuncVal{Model: "reflect.MakeFunc.result", Data: []Value{cc.args[1]}})))
		return true
	}}

	// ---- reflect.Type methods (invoked through the interface) ----
	tm := func(name string, f func(cc *CallCtx, t types.Type) Value) {
		models["(verifRType)."+name] = &Model{Takeover: func(cc *CallCtx) bool {
			// the receiver (and a reflect.Type argument) must denote one type: fork on the alternatives
			if !cc.forkArg(0) {
				return false
			}
			if name == "AssignableTo" && !cc.forkArg(1) {
				return false
			}
			t := typeArg(cc, cc.args[0])
			if t == nil {
				cc.e.raise(cc.c, TS.True, "nil pointer dereference (method call on nil reflect.Type)")
				return false
			}
			v := f(cc, t)
			if cc.c.g.IsFalse() {
				return false
			}
			cc.finish(v)
			return true
		}}
	}
	tm("Kind", func(cc *CallCtx, t types.Type) Value { return BV(kindOf(t), 64) })
	tm("String", func(cc *CallCtx, t types.Type) Value { return mkStr(types.TypeString(t, nil)) })
	tm("Elem", func(cc *CallCtx, t types.Type) Value {
		switch u := t.Underlying().(type) {
		case *types.Chan:
			return rtypeIface(u.Elem())
		case *types.Pointer:
			return rtypeIface(u.Elem())
		case *types.Slice:
			return rtypeIface(u.Elem())
		case *types.Array:
			return rtypeIface(u.Elem())
		case *types.Map:
			return rtypeIface(u.Elem())
		}
		cc.e.raise(cc.c, TS.True, "reflect: Elem of invalid type")
		return nilRef()
	})
	tm("ChanDir", func(cc *CallCtx, t types.Type) Value {
		u, ok := t.Underlying().(*types.Chan)
		if !ok {
			cc.e.raise(cc.c, TS.True, "reflect: ChanDir of non-chan type")
			return BV(0, 64)
		}
		switch u.Dir() {
		case types.RecvOnly:
			return BV(1, 64)
		case types.SendOnly:
			return BV(2, 64)
		}
		return BV(3, 64)
	})
	tm("AssignableTo", func(cc *CallCtx, t types.Type) Value {
		u := typeArg(cc, cc.args[1])
		if u == nil {
			cc.e.raise(cc.c, TS.True, "reflect: nil type passed to Type.AssignableTo")
			return TS.False
		}
		return BoolT(types.AssignableTo(t, u))
	})
	sig := func(cc *CallCtx, t types.Type) *types.Signature {
		s, ok := t.Underlying().(*types.Signature)
		if !ok {
			cc.e.raise(cc.c, TS.True, "reflect: func-only method of non-func type")
			return nil
		}
		return s
	}
	tm("NumIn", func(cc *CallCtx, t types.Type) Value {
		if s := sig(cc, t); s != nil {
			return BV(uint64(s.Params().Len()), 64)
		}
		return BV(0, 64)
	})
	tm("NumOut", func(cc *CallCtx, t types.Type) Value {
		if s := sig(cc, t); s != nil {
			return BV(uint64(s.Results().Len()), 64)
		}
		return BV(0, 64)
	})
	tm("IsVariadic", func(cc *CallCtx, t types.Type) Value {
		if s := sig(cc, t); s != nil {
			return BoolT(s.Variadic())
		}
		return TS.False
	})
	inout := func(in bool) func(cc *CallCtx, t types.Type) Value {
		return func(cc *CallCtx, t types.Type) Value {
			s := sig(cc, t)
			if s == nil {
				return nilRef()
			}
			i, ok := cc.args[1].(*Term)
			if !ok || !i.IsConst() {
				inconclusive("reflect.Type.In/Out with symbolic index")
			}
			tup := s.Results()
			if in {
				tup = s.Params()
			}
			if int(i.val) >= tup.Len() {
				cc.e.raise(cc.c, TS.True, "reflect: Func index out of bounds")
				return nilRef()
			}
			return rtypeIface(tup.At(int(i.val)).Type())
		}
	}
	tm("In", inout(true))
	tm("Out", inout(false))
}

var _ = fmt.Sprintf
var _ ssa.Value

func init() {
	// reflect.Select(cases []SelectCase) (chosen int, recv Value, recvOK bool): the channel model's select
	// over the cases of the slice (send cases only on buffered channels).
	type rcase struct {
		in   *Term // i < len
		send bool
		ch   *ChanObj
		val  Value
		elem types.Type
		slot int
	}
	gather := func(cc *CallCtx) []rcase {
		e := cc.e
		sl, ok := cc.args[0].(*SliceV)
		if !ok {
			inconclusive("reflect.Select on %T", cc.args[0])
		}
		n := e.sliceMaxLen(sl)
		var out []rcase
		for i := 0; i < n; i++ {
			in := Ult(BV(uint64(i), 64), sl.Len)
			if in.IsFalse() || semFalse(And(cc.c.g, in)) {
				continue
			}
			p := e.elemRef(cc.c, sl.Base, Add(sl.Off, BV(uint64(i), 64)))
			if len(p.Alts) == 0 {
				continue
			}
			cv := resolveDeep(e.loadNoPanic(cc.c, p), And(cc.c.g, in)).(*StructV)
			dir, okd := cv.F[0].(*Term)
			if !okd {
				inconclusive("reflect.Select: case %d direction is not a plain value", i)
			}
			for _, d := range []uint64{1, 2, 3} {
				gd := And(in, Eq(restrictTerm(dir, And(cc.c.g, in)), BV(d, dir.w)))
				if gd.IsFalse() || semFalse(And(cc.c.g, gd)) {
					continue
				}
				if d == 3 {
					inconclusive("reflect.Select with a default case is not modelled")
				}
				chv := cv.F[1].(*StructV)
				boxes := pruneRefUnder(chv.F[1].(*RefV), And(cc.c.g, gd))
				for _, ba := range boxes.Alts {
					iv, ok := ba.R.(*IfaceVal)
					if !ok {
						out = append(out, rcase{in: And(gd, ba.G), send: d == 1, slot: i})
						continue
					}
					chr, ok := iv.V.(*RefV)
					if !ok {
						continue
					}
					for _, ca := range pruneRefUnder(chr, And(cc.c.g, gd, ba.G)).Alts {
						rc := rcase{in: And(gd, ba.G, ca.G), send: d == 1, slot: i}
						if ch, ok := ca.R.(*ChanObj); ok {
							rc.ch = ch
						}
						if rc.send {
							rc.val = rvInner(cv.F[2], And(cc.c.g, rc.in))
						}
						if semFalse(And(cc.c.g, rc.in)) {
							continue
						}
						out = append(out, rc)
					}
				}
			}
		}
		return out
	}
	ready := func(cc *CallCtx, rc rcase) *Term {
		if rc.ch == nil {
			return TS.False
		}
		if rc.send {
			if rc.ch.Cap == 0 {
				if rc.ch.Kind != "" {
					return TS.False // a context's Done channel is never a send target: infeasible pairing
				}
				inconclusive("reflect.Select: send on an unbuffered channel is not modelled (use buffered targets)")
			}
			return And(rc.in, cc.e.sendReady(cc.c, rc.ch, 0))
		}
		return And(rc.in, cc.e.recvReady(cc.c, rc.ch))
	}
	models["reflect.Select"] = &Model{
		TakeoverEnabled: func(cc *CallCtx, ph int) *Term {
			var rs []*Term
			for _, rc := range gather(cc) {
				rs = append(rs, ready(cc, rc))
			}
			return Or(rs...)
		},
		Takeover: func(cc *CallCtx) bool {
			e := cc.e
			return e.visibleOp(cc.c, cc.rest,
				func(int) *Term {
					var rs []*Term
					for _, rc := range gather(cc) {
						rs = append(rs, ready(cc, rc))
					}
					return Or(rs...)
				},
				func(int) bool {
					c := cc.c
					cases := gather(cc)
					var rd []*Term
					multi := 0
					for _, rc := range cases {
						r := ready(cc, rc)
						rd = append(rd, r)
						if !r.IsFalse() {
							multi++
						}
					}
					var ch *Term
					if multi > 1 {
						ch = e.choiceVar(c)
					}
					pointed := TS.False
					if ch != nil {
						for i := range cases {
							pointed = Or(pointed, And(Eq(ch, BV(uint64(i), 8)), rd[i]))
						}
					}
					earlier := TS.False
					idx := BV(0, 64)
					recvOK := TS.False
					var recv Value = zeroReflectValue()
					base := c.g
					for i, rc := range cases {
						byPtr := TS.False
						if ch != nil {
							byPtr = And(Eq(ch, BV(uint64(i), 8)), rd[i])
						}
						sel := Or(byPtr, And(Not(pointed), rd[i], Not(earlier)))
						earlier = Or(earlier, rd[i])
						if sel.IsFalse() {
							continue
						}
						// the index is the position in the slice: cases are gathered in order, positions
						// skipped by gather are impossible under the guard
						idx = Ite(sel, BV(uint64(rc.slot), 64), idx)
						c.g = And(base, sel)
						if rc.send {
							e.doSend(c, rc.ch, rc.val, 0)
						} else {
							v, ok := e.doRecv(c, rc.ch)
							recvOK = Ite(sel, ok, recvOK)
							rv := mkReflectValue(rc.ch.T, v)
							recv = iteValue(sel, rv, recv)
						}
					}
					c.g = And(base, earlier)
					cc.finish(&StructV{F: []Value{idx, recv, recvOK}})
					return true
				})
		}}
}
