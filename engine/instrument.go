package main

// Source instrumenter for native schedule replay: every statement of /repo's non-test sources (and of
// the harness files) that contains an operation the engine treats as a scheduling point gets a
// preceding call verifPoint("file:line"). The native controller (rt/aa_rt_native.go) lets goroutines
// pass these points in the order of the solver's schedule. Regenerated from the current tree on every
// replay, so edited sources are instrumented too.

import (
	"bytes"
	"fmt"
	"go/ast"
	"go/printer"
	"go/token"
	"go/types"
	"os"
	"path/filepath"
	"strings"
)

type instrumenter struct {
	fset *token.FileSet
	info *types.Info
	file string
	n    int
}

func (in *instrumenter) visibleCall(call *ast.CallExpr) bool {
	switch fun := call.Fun.(type) {
	case *ast.SelectorExpr:
		if obj, ok := in.info.Uses[fun.Sel]; ok {
			if f, ok := obj.(*types.Func); ok {
				full := f.FullName()
				for _, p := range []string{"(*sync.", "(*sync/atomic.", "(context.Context).", "context.AfterFunc", "context.WithCancel", "time.Sleep", "(sync.Locker).", "(*time.Timer).", "(*time.Ticker).", "(reflect.Value).TryRecv", "reflect.Select"} {
					if strings.HasPrefix(full, p) {
						return true
					}
				}
				return false
			}
			if _, ok := obj.(*types.Var); ok {
				// call through a field of function type
				if _, ok := obj.Type().Underlying().(*types.Signature); ok {
					return true
				}
			}
		}
	case *ast.Ident:
		if fun.Name == "verifYield" {
			return true // an explicit scheduling point of the harness
		}
		if fun.Name == "close" {
			if _, ok := in.info.Uses[fun].(*types.Builtin); ok {
				return true
			}
		}
		if obj, ok := in.info.Uses[fun]; ok {
			if v, ok := obj.(*types.Var); ok {
				if _, ok := v.Type().Underlying().(*types.Signature); ok {
					return true // cancel(), stop(), done(), resolve(...)
				}
			}
		}
	}
	return false
}

// visiblePositions: positions (as go/ssa reports them) of the visible operations in the node, in source
// order, not looking into function literals or nested blocks.
func (in *instrumenter) visiblePositions(n ast.Node) []token.Pos {
	if n == nil {
		return nil
	}
	var out []token.Pos
	ast.Inspect(n, func(x ast.Node) bool {
		switch y := x.(type) {
		case *ast.FuncLit:
			return false
		case *ast.CallExpr:
			if in.visibleCall(y) {
				out = append(out, y.Lparen)
			}
		case *ast.UnaryExpr:
			if y.Op == token.ARROW {
				out = append(out, y.OpPos)
			}
		case *ast.SendStmt:
			out = append(out, y.Arrow)
		case *ast.SelectStmt:
			out = append(out, y.Select)
			return false
		case *ast.BlockStmt:
			return false
		}
		return true
	})
	return out
}

func (in *instrumenter) hasVisible(n ast.Node) bool {
	if n == nil || isNilNode(n) {
		return false
	}
	return len(in.visiblePositions(n)) > 0
}

func isNilNode(n ast.Node) bool {
	switch v := n.(type) {
	case ast.Expr:
		return v == nil
	case ast.Stmt:
		return v == nil
	}
	return false
}

// hookNames: full names of hookable library functions (verifBefore) called in the node.
func (in *instrumenter) hookNames(n ast.Node) []string {
	var out []string
	ast.Inspect(n, func(x ast.Node) bool {
		switch y := x.(type) {
		case *ast.FuncLit, *ast.BlockStmt:
			return false
		case *ast.CallExpr:
			if sel, ok := y.Fun.(*ast.SelectorExpr); ok {
				if f, ok := in.info.Uses[sel.Sel].(*types.Func); ok {
					full := f.FullName()
					if strings.HasPrefix(full, "reflect.Select") {
						out = append(out, full)
					}
				}
			}
		}
		return true
	})
	return out
}

func (in *instrumenter) points(nodes ...ast.Node) []ast.Stmt {
	var out []ast.Stmt
	seen := map[int]bool{}
	for _, n := range nodes {
		if n == nil || isNilNode(n) {
			continue
		}
		for _, hn := range in.hookNames(n) {
			out = append(out, &ast.ExprStmt{X: &ast.CallExpr{Fun: ast.NewIdent("verifHook"),
				Args: []ast.Expr{&ast.BasicLit{Kind: token.STRING, Value: fmt.Sprintf("%q", hn)}}}})
		}
		for _, p := range in.visiblePositions(n) {
			line := in.fset.Position(p).Line
			if seen[line] {
				continue
			}
			seen[line] = true
			out = append(out, in.point(p))
		}
	}
	return out
}

func (in *instrumenter) point(pos token.Pos) ast.Stmt {
	p := in.fset.Position(pos)
	in.n++
	return &ast.ExprStmt{X: &ast.CallExpr{Fun: ast.NewIdent("verifPoint"),
		Args: []ast.Expr{&ast.BasicLit{Kind: token.STRING, Value: fmt.Sprintf("%q", fmt.Sprintf("%s:%d", filepath.Base(p.Filename), p.Line))}}}}
}

func (in *instrumenter) stmts(list []ast.Stmt) []ast.Stmt {
	var out []ast.Stmt
	for _, s := range list {
		in.inner(s)
		switch st := s.(type) {
		case *ast.DeferStmt:
			// wrap a deferred visible call so that the point is passed when it actually runs; the function
			// value (with its receiver) and the argument of close are still evaluated at defer time
			if in.visibleCall(st.Call) {
				in.n++
				tmp := ast.NewIdent(fmt.Sprintf("verifDeferred%d", in.n))
				if id, ok := st.Call.Fun.(*ast.Ident); ok && id.Name == "close" && len(st.Call.Args) == 1 {
					out = append(out, &ast.AssignStmt{Lhs: []ast.Expr{tmp}, Tok: token.DEFINE, Rhs: []ast.Expr{st.Call.Args[0]}})
					st.Call = &ast.CallExpr{Fun: &ast.FuncLit{Type: &ast.FuncType{Params: &ast.FieldList{}},
						Body: &ast.BlockStmt{List: []ast.Stmt{in.point(st.Defer), &ast.ExprStmt{X: &ast.CallExpr{Fun: ast.NewIdent("close"), Args: []ast.Expr{tmp}}}}}}}
				} else if len(st.Call.Args) == 0 {
					out = append(out, &ast.AssignStmt{Lhs: []ast.Expr{tmp}, Tok: token.DEFINE, Rhs: []ast.Expr{st.Call.Fun}})
					st.Call = &ast.CallExpr{Fun: &ast.FuncLit{Type: &ast.FuncType{Params: &ast.FieldList{}},
						Body: &ast.BlockStmt{List: []ast.Stmt{in.point(st.Defer), &ast.ExprStmt{X: &ast.CallExpr{Fun: tmp}}}}}}
				}
			}
			out = append(out, s)
			continue
		case *ast.GoStmt:
			out = append(out, in.goStmt(st)...)
			continue
		case *ast.ForStmt:
			if st.Cond != nil && len(in.visiblePositions(st.Cond)) > 0 && st.Post == nil && st.Init == nil {
				// for cond { body }  =>  for { point; if !(cond) { break }; body }
				brk := &ast.IfStmt{Cond: &ast.UnaryExpr{Op: token.NOT, X: &ast.ParenExpr{X: st.Cond}}, Body: &ast.BlockStmt{List: []ast.Stmt{&ast.BranchStmt{Tok: token.BREAK}}}}
				st.Body.List = append(append(in.points(st.Cond), brk), st.Body.List...)
				st.Cond = nil
				out = append(out, s)
				continue
			}
			out = append(out, in.points(nodeOrNil(st.Init), exprOrNil(st.Cond))...)
			out = append(out, s)
			continue
		case *ast.IfStmt:
			out = append(out, in.points(nodeOrNil(st.Init), exprOrNil(st.Cond))...)
			out = append(out, s)
			continue
		case *ast.SwitchStmt:
			out = append(out, in.points(nodeOrNil(st.Init), exprOrNil(st.Tag))...)
			out = append(out, s)
			continue
		case *ast.RangeStmt:
			out = append(out, in.points(exprOrNil(st.X))...)
			out = append(out, s)
			continue
		case *ast.SelectStmt:
			out = append(out, in.point(st.Select), s)
			continue
		case *ast.BlockStmt, *ast.LabeledStmt, *ast.TypeSwitchStmt:
			out = append(out, s)
			continue
		}
		out = append(out, in.points(s)...)
		out = append(out, s)
	}
	return out
}

func nodeOrNil(s ast.Stmt) ast.Node {
	if s == nil {
		return nil
	}
	return s
}

func exprOrNil(e ast.Expr) ast.Node {
	if e == nil {
		return nil
	}
	return e
}

func simpleArgs(c *ast.CallExpr) bool {
	for _, a := range c.Args {
		switch a.(type) {
		case *ast.Ident, *ast.SelectorExpr, *ast.BasicLit:
		default:
			return false
		}
	}
	return true
}

// inner instruments the blocks nested in a statement (including function literals in expressions).
func (in *instrumenter) inner(s ast.Stmt) {
	switch st := s.(type) {
	case nil:
		return
	case *ast.BlockStmt:
		st.List = in.stmts(st.List)
		return
	case *ast.IfStmt:
		in.funcLits(st.Init)
		in.funcLits(st.Cond)
		st.Body.List = in.stmts(st.Body.List)
		if st.Else != nil {
			in.inner(st.Else)
		}
		return
	case *ast.ForStmt:
		in.funcLits(st.Init)
		in.funcLits(st.Cond)
		in.funcLits(st.Post)
		st.Body.List = in.stmts(st.Body.List)
		return
	case *ast.RangeStmt:
		in.funcLits(st.X)
		st.Body.List = in.stmts(st.Body.List)
		return
	case *ast.SwitchStmt:
		in.funcLits(st.Init)
		in.funcLits(st.Tag)
		in.clauses(st.Body)
		return
	case *ast.TypeSwitchStmt:
		in.clauses(st.Body)
		return
	case *ast.SelectStmt:
		in.clauses(st.Body)
		return
	case *ast.LabeledStmt:
		in.inner(st.Stmt)
		return
	}
	in.funcLits(s)
}

func (in *instrumenter) clauses(b *ast.BlockStmt) {
	for _, c := range b.List {
		switch cc := c.(type) {
		case *ast.CaseClause:
			cc.Body = in.stmts(cc.Body)
		case *ast.CommClause:
			cc.Body = in.stmts(cc.Body)
		}
	}
}

// funcLits instruments the bodies of function literals occurring in a node.
func (in *instrumenter) funcLits(n ast.Node) {
	if n == nil || isNilNode(n) {
		return
	}
	ast.Inspect(n, func(x ast.Node) bool {
		if fl, ok := x.(*ast.FuncLit); ok {
			fl.Body.List = in.stmts(fl.Body.List)
			return false
		}
		return true
	})
}

// instrumentRepo writes instrumented copies of the loaded package's non-test files into outDir and
// returns a map original path -> instrumented path.
func instrumentRepo(l *Loaded, outDir string) (map[string]string, error) {
	res := map[string]string{}
	pp := l.PP
	for i, f := range pp.Syntax {
		name := pp.CompiledGoFiles[i]
		base := filepath.Base(name)
		if strings.HasSuffix(base, "_test.go") || base == "zz_verif_aa_rt_decl.go" {
			continue
		}
		in := &instrumenter{fset: pp.Fset, info: pp.TypesInfo, file: name}
		for _, d := range f.Decls {
			if fd, ok := d.(*ast.FuncDecl); ok && fd.Body != nil {
				if strings.HasPrefix(fd.Name.Name, "verifPoint") {
					continue
				}
				fd.Body.List = in.stmts(fd.Body.List)
			}
			if gd, ok := d.(*ast.GenDecl); ok {
				// package-level function literals (var waitDuration = func...)
				ast.Inspect(gd, func(x ast.Node) bool {
					if fl, ok := x.(*ast.FuncLit); ok {
						fl.Body.List = in.stmts(fl.Body.List)
						return false
					}
					return true
				})
			}
		}
		ast.Inspect(f, func(x ast.Node) bool {
			if call, ok := x.(*ast.CallExpr); ok && len(call.Args) == 1 {
				if sel, ok := call.Fun.(*ast.SelectorExpr); ok {
					if fn, ok := pp.TypesInfo.Uses[sel.Sel].(*types.Func); ok && fn.FullName() == "sync.NewCond" {
						call.Args[0] = &ast.CallExpr{Fun: ast.NewIdent("verifWrapLocker"), Args: []ast.Expr{call.Args[0]}}
					}
				}
			}
			return true
		})
		f.Comments = nil
		var buf bytes.Buffer
		cfg := printer.Config{Mode: printer.RawFormat}
		if err := cfg.Fprint(&buf, token.NewFileSet(), f); err != nil {
			// positions are stale after rewriting; print without them
			buf.Reset()
			if err2 := printer.Fprint(&buf, token.NewFileSet(), f); err2 != nil {
				return nil, fmt.Errorf("printing %s: %v", name, err2)
			}
		}
		out := filepath.Join(outDir, base)
		if err := os.WriteFile(out, buf.Bytes(), 0644); err != nil {
			return nil, err
		}
		res[name] = out
	}
	return res, nil
}


// goStmt gives the spawned goroutine an identity the controller can check: a token taken by the parent
// just before the go statement (parent identity, site, occurrence) is bound by the child as its first
// action. Function value and arguments are still evaluated by the parent, in order, at the go statement.
func (in *instrumenter) goStmt(st *ast.GoStmt) []ast.Stmt {
	call := st.Call
	if id, ok := call.Fun.(*ast.Ident); ok {
		if _, isBuiltin := in.info.Uses[id].(*types.Builtin); isBuiltin {
			return []ast.Stmt{st}
		}
	}
	p := in.fset.Position(st.Go)
	in.n++
	n := in.n
	tok := ast.NewIdent(fmt.Sprintf("verifGoTok%d", n))
	site := &ast.BasicLit{Kind: token.STRING, Value: fmt.Sprintf("%q", fmt.Sprintf("%s:%d", filepath.Base(p.Filename), p.Line))}
	out := []ast.Stmt{&ast.AssignStmt{Lhs: []ast.Expr{tok}, Tok: token.DEFINE,
		Rhs: []ast.Expr{&ast.CallExpr{Fun: ast.NewIdent("verifSpawnToken"), Args: []ast.Expr{site}}}}}
	bind := &ast.ExprStmt{X: &ast.CallExpr{Fun: ast.NewIdent("verifBindChild"), Args: []ast.Expr{tok}}}
	if fl, ok := call.Fun.(*ast.FuncLit); ok && len(call.Args) == 0 {
		fl.Body.List = append([]ast.Stmt{bind}, fl.Body.List...)
		return append(out, st)
	}
	var lhs, rhs, args []ast.Expr
	fn := ast.NewIdent(fmt.Sprintf("verifGoFn%d", n))
	lhs = append(lhs, fn)
	rhs = append(rhs, call.Fun)
	for i, a := range call.Args {
		if tv, ok := in.info.Types[a]; ok && (tv.Value != nil || tv.IsNil()) {
			args = append(args, a) // constants and nil stay in place (an untyped constant has no variable type)
			continue
		}
		v := ast.NewIdent(fmt.Sprintf("verifGoArg%d_%d", n, i))
		lhs = append(lhs, v)
		rhs = append(rhs, a)
		args = append(args, v)
	}
	out = append(out, &ast.AssignStmt{Lhs: lhs, Tok: token.DEFINE, Rhs: rhs})
	inner := &ast.CallExpr{Fun: fn, Args: args, Ellipsis: call.Ellipsis}
	st.Call = &ast.CallExpr{Fun: &ast.FuncLit{Type: &ast.FuncType{Params: &ast.FieldList{}},
		Body: &ast.BlockStmt{List: []ast.Stmt{bind, &ast.ExprStmt{X: inner}}}}}
	return append(out, st)
}
