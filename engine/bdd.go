package main

// A small ROBDD package used as a cheap, exact propositional oracle for guards: a Bool term is
// converted (memoised) into a BDD whose variables are the term's non-propositional atoms. Atoms of
// the form eq(x, const) over the same x are encoded as an if-then-else chain so that they are
// mutually exclusive by construction (this is what makes the guards of different goroutines at one
// scheduler step contradict each other). The oracle is sound for "unsatisfiable": atoms are treated
// as independent, so it may miss infeasibility but never invents it.

type bddNode struct {
	v      int32
	lo, hi int32
}

type BDD struct {
	nodes     []bddNode
	unique    map[bddNode]int32
	andMemo   map[[2]int32]int32
	notMemo   map[int32]int32
	tmemo     map[int]int32 // term id -> bdd
	atomVar   map[int]int32 // atom term id -> variable index
	eqGroup   map[int][]eqAtom
	nvars     int32
	budget    int
	blown     bool
	callLimit int
	skip      map[int]bool
	opaque    map[int]bool
	stack     []*Term
}

type bddAbort struct{}

type eqAtom struct {
	k uint64
	v int32
}

const (
	bddFalse int32 = 0
	bddTrue  int32 = 1
)

func NewBDD() *BDD {
	b := &BDD{unique: map[bddNode]int32{}, andMemo: map[[2]int32]int32{}, notMemo: map[int32]int32{},
		tmemo: map[int]int32{}, atomVar: map[int]int32{}, eqGroup: map[int][]eqAtom{}, budget: 3000000}
	b.nodes = append(b.nodes, bddNode{v: 1 << 30}, bddNode{v: 1 << 30})
	return b
}

func (b *BDD) mk(v, lo, hi int32) int32 {
	if lo == hi {
		return lo
	}
	n := bddNode{v, lo, hi}
	if id, ok := b.unique[n]; ok {
		return id
	}
	if len(b.nodes) > b.callLimit {
		panic(bddAbort{})
	}
	id := int32(len(b.nodes))
	b.nodes = append(b.nodes, n)
	b.unique[n] = id
	return id
}

func (b *BDD) newVar() int32 {
	v := b.nvars
	b.nvars++
	return v
}

func (b *BDD) varNode(v int32) int32 { return b.mk(v, bddFalse, bddTrue) }

func (b *BDD) not(x int32) int32 {
	if x == bddFalse {
		return bddTrue
	}
	if x == bddTrue {
		return bddFalse
	}
	if r, ok := b.notMemo[x]; ok {
		return r
	}
	n := b.nodes[x]
	r := b.mk(n.v, b.not(n.lo), b.not(n.hi))
	b.notMemo[x] = r
	return r
}

func (b *BDD) and(x, y int32) int32 {
	if x == bddFalse || y == bddFalse {
		return bddFalse
	}
	if x == bddTrue {
		return y
	}
	if y == bddTrue || x == y {
		return x
	}
	if x > y {
		x, y = y, x
	}
	k := [2]int32{x, y}
	if r, ok := b.andMemo[k]; ok {
		return r
	}
	nx, ny := b.nodes[x], b.nodes[y]
	var r int32
	switch {
	case nx.v == ny.v:
		r = b.mk(nx.v, b.and(nx.lo, ny.lo), b.and(nx.hi, ny.hi))
	case nx.v < ny.v:
		r = b.mk(nx.v, b.and(nx.lo, y), b.and(nx.hi, y))
	default:
		r = b.mk(ny.v, b.and(x, ny.lo), b.and(x, ny.hi))
	}
	b.andMemo[k] = r
	return r
}

func (b *BDD) or(x, y int32) int32 { return b.not(b.and(b.not(x), b.not(y))) }

func (b *BDD) ite(c, x, y int32) int32 {
	return b.or(b.and(c, x), b.and(b.not(c), y))
}

// atom returns the BDD of a non-propositional Bool term.
func (b *BDD) atom(t *Term) int32 {
	// eq(x, const): chain encoding per x
	if t.op == OpEq && t.args[0].w != 0 {
		var x, k *Term
		if t.args[1].IsConst() {
			x, k = t.args[0], t.args[1]
		} else if t.args[0].IsConst() {
			x, k = t.args[1], t.args[0]
		}
		if x != nil {
			grp := b.eqGroup[x.id]
			for _, a := range grp {
				if a.k == k.val {
					return b.eqChain(grp, a.k)
				}
			}
			// new constant for x: its variable comes after the existing ones of the group in the chain
			// (allocated now, so ordering follows first appearance)
			grp = append(grp, eqAtom{k.val, b.newVar()})
			b.eqGroup[x.id] = grp
			return b.eqChain(grp, k.val)
		}
	}
	if v, ok := b.atomVar[t.id]; ok {
		return b.varNode(v)
	}
	v := b.newVar()
	b.atomVar[t.id] = v
	return b.varNode(v)
}

// eqChain: x == k  <=>  not a_0 and ... and not a_{i-1} and a_i  (a_i the variable of constant k)
func (b *BDD) eqChain(grp []eqAtom, k uint64) int32 {
	r := bddTrue
	for _, a := range grp {
		if a.k == k {
			return b.and(r, b.varNode(a.v))
		}
		r = b.and(r, b.not(b.varNode(a.v)))
	}
	return bddFalse
}

func (b *BDD) of(t *Term) int32 {
	if r, ok := b.tmemo[t.id]; ok {
		return r
	}
	if b.opaque[t.id] {
		// a sub-term whose expansion blew the budget before: treated as an independent atom
		if v, ok := b.atomVar[t.id]; ok {
			return b.varNode(v)
		}
		v := b.newVar()
		b.atomVar[t.id] = v
		return b.varNode(v)
	}
	b.stack = append(b.stack, t)
	defer func() { b.stack = b.stack[:len(b.stack)-1] }()
	var r int32
	switch t.op {
	case OpConst:
		if t.val != 0 {
			r = bddTrue
		} else {
			r = bddFalse
		}
	case OpNot:
		r = b.not(b.of(t.args[0]))
	case OpAnd:
		r = bddTrue
		for _, a := range t.args {
			r = b.and(r, b.of(a))
			if r == bddFalse {
				break
			}
		}
	case OpOr:
		r = bddFalse
		for _, a := range t.args {
			r = b.or(r, b.of(a))
			if r == bddTrue {
				break
			}
		}
	case OpIte:
		r = b.ite(b.of(t.args[0]), b.of(t.args[1]), b.of(t.args[2]))
	case OpEq:
		if t.args[0].w == 0 {
			x, y := b.of(t.args[0]), b.of(t.args[1])
			r = b.or(b.and(x, y), b.and(b.not(x), b.not(y)))
		} else {
			r = b.atom(t)
		}
	default:
		r = b.atom(t)
	}
	b.tmemo[t.id] = r
	return r
}

var theBDD *BDD
var bddStats struct{ calls, cut, aborts, resets int }

// semFalse: is the Bool term propositionally unsatisfiable (atoms independent, eq-atoms exclusive)?
// Each call may create at most bddPerCall new nodes; a term that exceeds it is remembered and skipped.
const bddPerCall = 12000

func semFalse(t *Term) bool {
	if t.IsFalse() {
		return true
	}
	if t.IsTrue() || t.w != 0 {
		return false
	}
	if theBDD == nil {
		theBDD = NewBDD()
		theBDD.skip = map[int]bool{}
		theBDD.opaque = map[int]bool{}
	}
	b := theBDD
	if b.skip[t.id] || bddStats.aborts > bddMaxAborts {
		// too many blow-ups: the guards of this harness are not BDD-friendly; stop trying
		return false
	}
	if len(b.nodes) > b.budget {
		// global reset (keeps the skip set)
		skip, opq := b.skip, b.opaque
		theBDD = NewBDD()
		theBDD.skip = skip
		theBDD.opaque = opq
		b = theBDD
		bddStats.resets++
	}
	bddStats.calls++
	b.callLimit = len(b.nodes) + bddPerCall
	res := false
	func() {
		defer func() {
			if r := recover(); r != nil {
				if _, ok := r.(bddAbort); ok {
					// make the innermost compound sub-terms under expansion opaque for the future
					n := len(b.stack)
					for i := n - 1; i >= 0 && i >= n-2; i-- {
						if b.stack[i] != t {
							b.opaque[b.stack[i].id] = true
						}
					}
					if n <= 1 {
						b.skip[t.id] = true
					}
					b.stack = b.stack[:0]
					bddStats.aborts++
					return
				}
				panic(r)
			}
		}()
		res = b.of(t) == bddFalse
	}()
	if res {
		bddStats.cut++
	}
	return res
}

var bddMaxAborts = 400
