package main

import (
	"fmt"
	"go/token"
	"go/types"

	"golang.org/x/tools/go/ssa"
)

// ---------------- context model ----------------

type CtxObj struct {
	Obj      *Object
	Name     string
	Parent   *RefV // alts of *CtxObj / nil (cancellation parent)
	Own      *Cell // Bool: cancelled directly
	DoneCh   *ChanObj
	ValKey   Value
	ValVal   Value
	ValFrom  *RefV // where Value lookups continue
	Root     bool
	Deadline *Cell // Bool: ended by its deadline (Err is DeadlineExceeded)
	// Cancelable: created by WithCancel / WithDeadline / WithTimeout (it can end on its own account); a
	// context that is not cancelable and has no cancelable ancestor has a nil Done channel
	Cancelable bool
}

// ctxNever: the condition under which context x can never end (no cancelable context on its parent chain).
func ctxNever(x *CtxObj, depth int) *Term {
	if x.Cancelable {
		return TS.False
	}
	if x.Parent == nil || depth > 32 {
		return TS.True
	}
	cs := []*Term{}
	for _, a := range x.Parent.Alts {
		if p, ok := a.R.(*CtxObj); ok {
			cs = append(cs, Or(Not(a.G), ctxNever(p, depth+1)))
		}
	}
	return And(cs...)
}

type AfterReg struct {
	Obj   *Object
	Ctx   *RefV
	State *Cell // BV8: 0 pending, 1 fired, 2 stopped
	ID    int
}

var ctxModelType types.Type

func init() {
	tn := types.NewTypeName(token.NoPos, nil, "verifCtx", nil)
	ctxModelType = types.NewNamed(tn, types.NewStruct(nil, nil), nil)
}

func ctxValue(x *CtxObj) Value {
	return refTo(&IfaceVal{T: ctxModelType, V: refTo(x)})
}

func (e *Engine) newCtx(c *Config, kind string, parent *RefV, valFrom *RefV) *CtxObj {
	name := e.dynName(c, "ctx:"+kind)
	if o, ok := e.objs[name]; ok {
		x := o.Root.Val.(*RefV).Alts[0].R.(*CtxObj)
		// a context cannot be its own ancestor: alternatives naming x itself come from re-executing
		// this site at a later step (heap cells hold ite(fired-earlier, x, old)) and are infeasible
		dropSelf := func(pr *RefV) *RefV {
			if pr == nil {
				return nil
			}
			out := &RefV{}
			for _, a := range pr.Alts {
				if a.R == Ref(x) || And(a.G, c.g).IsFalse() {
					continue
				}
				out.Alts = append(out.Alts, a)
			}
			return out
		}
		parent, valFrom = dropSelf(parent), dropSelf(valFrom)
		// re-execution of the same dynamic site: refresh links under guard
		x.Parent = mergeParent(c.g, parent, x.Parent)
		x.ValFrom = mergeParent(c.g, valFrom, x.ValFrom)
		return x
	}
	o := newObject(name)
	x := &CtxObj{Obj: o, Name: name, Parent: parent, ValFrom: valFrom, Cancelable: kind == "cancel" || kind == "deadline"}
	x.Own = &Cell{T: types.Typ[types.Bool], Obj: o, Val: TS.False, Path: ".cancelled"}
	o.Root = &Cell{T: ctxModelType, Obj: o, Val: refTo(x)}
	e.objs[name] = o
	e.ctxs = append(e.ctxs, x)
	return x
}

func mergeParent(g *Term, nw, old *RefV) *RefV {
	if old == nil {
		return nw
	}
	if nw == nil {
		return old
	}
	return mergeRefs(g, nw, old)
}

// ctxRefs extracts the *CtxObj alternatives from a context.Context value.
func ctxRefs(v Value) *RefV {
	out := &RefV{}
	r := v.(*RefV)
	for _, a := range r.Alts {
		switch x := a.R.(type) {
		case NilRef:
			out.Alts = append(out.Alts, RefAlt{a.G, theNil})
		case *IfaceVal:
			if x.T != ctxModelType {
				inconclusive("user-defined context implementation %v is not supported", x.T)
			}
			for _, b := range x.V.(*RefV).Alts {
				out.Alts = append(out.Alts, RefAlt{And(a.G, b.G), b.R})
			}
		case *CtxObj:
			out.Alts = append(out.Alts, a)
		}
	}
	return out
}

func (e *Engine) ctxCancelled(x *CtxObj) *Term {
	t := x.Own.Val.(*Term)
	if x.Parent != nil {
		for _, a := range x.Parent.Alts {
			if p, ok := a.R.(*CtxObj); ok {
				t = Or(t, And(a.G, e.ctxCancelled(p)))
			}
		}
	}
	return t
}

func (e *Engine) ctxCancelledV(r *RefV) *Term {
	var cs []*Term
	for _, a := range r.Alts {
		if x, ok := a.R.(*CtxObj); ok {
			cs = append(cs, And(a.G, e.ctxCancelled(x)))
		}
	}
	return Or(cs...)
}

func (e *Engine) footCtx(x *CtxObj, g *Term) {
	e.foot.read(x.Obj, g)
	if x.Parent != nil {
		for _, a := range x.Parent.Alts {
			if p, ok := a.R.(*CtxObj); ok {
				e.footCtx(p, And(g, a.G))
			}
		}
	}
}

// descOf: is x the target or a cancellation-descendant of it?
func (e *Engine) descOf(x, target *CtxObj) *Term {
	if x == target {
		return TS.True
	}
	t := TS.False
	if x.Parent != nil {
		for _, a := range x.Parent.Alts {
			if p, ok := a.R.(*CtxObj); ok {
				t = Or(t, And(a.G, e.descOf(p, target)))
			}
		}
	}
	return t
}

var background *CtxObj

func (e *Engine) backgroundCtx() *CtxObj {
	if background == nil {
		o := newObject("ctx:background")
		background = &CtxObj{Obj: o, Name: "background", Root: true}
		background.Own = &Cell{T: types.Typ[types.Bool], Obj: o, Val: TS.False}
		o.Root = &Cell{T: ctxModelType, Obj: o, Val: refTo(background)}
	}
	return background
}

func (e *Engine) canceledErr() Value {
	p := e.prog.ImportedPackage("context")
	if p == nil {
		inconclusive("package context not loaded")
	}
	g := p.Var("Canceled")
	return loadCell(e.globalCell(g))
}

func (e *Engine) stdErrorValue(msg string, name string) Value {
	ep := e.prog.ImportedPackage("errors")
	if ep == nil {
		inconclusive("package errors not loaded")
	}
	est := ep.Type("errorString").Type()
	o := e.objs["stderr:"+name]
	if o == nil {
		o = newObject("stderr:" + name)
		o.Root = newCell(est, o, "")
		e.objs["stderr:"+name] = o
		storeCell(fieldCell(o.Root, "s"), mkStr(msg), TS.True)
	}
	return refTo(&IfaceVal{T: types.NewPointer(est), V: refTo(o.Root)})
}

func (e *Engine) initExternalGlobal(g *ssa.Global, c *Cell) {
	if g.Pkg == nil || g.Pkg == e.pkg {
		return
	}
	switch g.Pkg.Pkg.Path() + "." + g.Name() {
	case "context.Canceled":
		c.Val = e.stdErrorValue("context canceled", "context.Canceled")
	case "context.DeadlineExceeded":
		c.Val = e.stdErrorValue("context deadline exceeded", "context.DeadlineExceeded")
	case "io.EOF":
		c.Val = e.stdErrorValue("EOF", "io.EOF")
	default:
		if g.Name() == "init$guard" {
			return
		}
		inconclusive("read of unmodelled external global %s", g)
	}
}

// freshErr makes a fresh non-nil error value named after the current dynamic site.
func (e *Engine) freshErr(c *Config, what string) Value {
	ep := e.prog.ImportedPackage("errors")
	est := ep.Type("errorString").Type()
	cell := e.allocCell(c, est, "err:"+what)
	storeCell(fieldCell(cell, "s"), symStr(what), c.g)
	return refTo(&IfaceVal{T: types.NewPointer(est), V: refTo(cell)})
}

func (e *Engine) clockCell() *Cell {
	o := e.objs["clock"]
	if o == nil {
		o = newObject("clock")
		o.Root = &Cell{T: types.Typ[types.Int64], Obj: o, Val: BV(1, 64)}
		e.objs["clock"] = o
	}
	return o.Root
}

var timeCounter int

// timeNow advances the abstract clock by an arbitrary non-negative amount and returns a time.Time.
func (e *Engine) timeNow(c *Config) Value {
	timeCounter++
	d := Var(fmt.Sprintf("dt_%d", timeCounter), 64)
	// the constraint must be built before the bound is registered: the term layer's interval reasoning
	// would otherwise fold it to true
	e.constraints = append(e.constraints, Ult(d, BV(4, 64)))
	varBounds[d.name] = [2]int64{0, 3}
	cl := e.clockCell()
	nv := Add(termOf(cl), d)
	e.foot.write(cl.Obj, c.g)
	storeCell(cl, nv, c.g)
	return &StructV{F: []Value{BV(0, 64), nv, nilRef()}}
}

func timeExt(v Value) *Term { return v.(*StructV).F[1].(*Term) }

func (e *Engine) callValue(c *Config, fnv Value, args []Value, onRet func(*Engine, *Config, Value), onUnw func(*Engine, *Config)) {
	r := pruneRefUnder(fnv.(*RefV), c.g)
	if len(r.Alts) != 1 {
		inconclusive("callValue: function value not unique: %s", valStr(r))
	}
	fv, ok := r.Alts[0].R.(*FuncVal)
	if !ok {
		e.raise(c, TS.True, "call of nil function")
		return
	}
	if fv.Model != "" {
		inconclusive("callValue on model function %s", fv.Model)
	}
	var saved *DeferRec
	if len(c.stack) > 0 {
		saved = c.top().pending
		c.top().pending = nil
	}
	nf := e.pushFrame(c, fv.Fn, args, fv.Bindings)
	if saved != nil {
		c.stack[len(c.stack)-2].pending = saved
	}
	nf.deferred = false
	nf.onReturn = onRet
	nf.onUnwind = onUnw
}

func init() {
	always := func(cc *CallCtx, ph int) *Term { return TS.True }
	models["context.Background"] = &Model{Plain: func(cc *CallCtx) Value { return ctxValue(cc.e.backgroundCtx()) }}
	models["context.TODO"] = models["context.Background"]
	cancelFn := func(x *CtxObj) Value {
		return refTo(&FuncVal{Model: "ctx.cancel", Data: []Value{refTo(x)}})
	}
	models["context.WithCancel"] = &Model{Plain: func(cc *CallCtx) Value {
		pr := ctxRefs(cc.args[0])
		cc.e.raise(cc.c, isNilTerm(pr), "cannot create context from nil parent")
		x := cc.e.newCtx(cc.c, "cancel", pr, pr)
		storeCell(x.Own, TS.False, cc.c.g)
		return &StructV{F: []Value{ctxValue(x), cancelFn(x)}}
	}}
	withDeadline := &Model{Plain: func(cc *CallCtx) Value {
		e := cc.e
		pr := ctxRefs(cc.args[0])
		e.raise(cc.c, isNilTerm(pr), "cannot create context from nil parent")
		x := e.newCtx(cc.c, "deadline", pr, pr)
		storeCell(x.Own, TS.False, cc.c.g)
		if x.Deadline == nil {
			x.Deadline = &Cell{T: types.Typ[types.Bool], Obj: x.Obj, Val: TS.False, Path: ".deadline"}
		}
		storeCell(x.Deadline, TS.False, cc.c.g)
		runner := e.pkg.Func("verifDeadlineRunner")
		if runner == nil {
			inconclusive("harness support function verifDeadlineRunner missing")
		}
		id := -1
		for i, y := range e.ctxs {
			if y == x {
				id = i
			}
		}
		e.spawn(cc.c, runner, []Value{BV(uint64(id), 64)}, nil)
		return &StructV{F: []Value{ctxValue(x), cancelFn(x)}}
	}}
	models["context.WithTimeout"] = withDeadline
	models["context.WithDeadline"] = withDeadline
	// verifDeadlineCtx(parent) (ctx, expire): a context that ends with DeadlineExceeded when expire is called
	// (the harness decides when, so the native replay can do the same with a hand-made context type)
	extraIntrinsics["verifDeadlineCtx"] = func(cc *CallCtx) bool {
		e := cc.e
		pr := ctxRefs(cc.args[0])
		x := e.newCtx(cc.c, "deadline", pr, pr)
		storeCell(x.Own, TS.False, cc.c.g)
		if x.Deadline == nil {
			x.Deadline = &Cell{T: types.Typ[types.Bool], Obj: x.Obj, Val: TS.False, Path: ".deadline"}
		}
		storeCell(x.Deadline, TS.False, cc.c.g)
		id := -1
		for i, y := range e.ctxs {
			if y == x {
				id = i
			}
		}
		cc.finish(&StructV{F: []Value{ctxValue(x), refTo(&FuncVal{Model: "ctx.expire", Data: []Value{BV(uint64(id), 64)}})}})
		return true
	}
	models["ctx.expire"] = &Model{Visible: true, Enabled: func(cc *CallCtx, ph int) *Term { return TS.True },
		Exec: func(cc *CallCtx, ph int) (Value, bool) {
			e := cc.e
			x := e.ctxs[cc.args[0].(*Term).val]
			g := cc.c.g
			live := Not(e.ctxCancelled(x))
			e.foot.write(x.Obj, g)
			storeCell(x.Deadline, TS.True, And(g, live))
			storeCell(x.Own, TS.True, And(g, live))
			for _, r := range e.afters {
				st := termOf(r.State)
				var in *Term = TS.False
				for _, a := range r.Ctx.Alts {
					if y, ok := a.R.(*CtxObj); ok {
						in = Or(in, And(a.G, e.descOf(y, x)))
					}
				}
				fire := And(g, live, in, Eq(st, BV(0, 8)))
				if fire.IsFalse() {
					continue
				}
				e.foot.write(r.Obj, fire)
				storeCell(r.State, BV(1, 8), fire)
			}
			return nil, true
		}}
	extraIntrinsics["verifFireDeadline"] = func(cc *CallCtx) bool {
		id := cc.args[0].(*Term)
		x := cc.e.ctxs[id.val]
		return cc.e.visibleOp(cc.c, cc.rest, func(int) *Term { return TS.True }, func(int) bool {
			e := cc.e
			g := cc.c.g
			live := Not(e.ctxCancelled(x))
			e.foot.write(x.Obj, g)
			storeCell(x.Deadline, TS.True, And(g, live))
			storeCell(x.Own, TS.True, And(g, live))
			for _, r := range e.afters {
				st := termOf(r.State)
				var in *Term = TS.False
				for _, a := range r.Ctx.Alts {
					if y, ok := a.R.(*CtxObj); ok {
						in = Or(in, And(a.G, e.descOf(y, x)))
					}
				}
				fire := And(g, live, in, Eq(st, BV(0, 8)))
				if fire.IsFalse() {
					continue
				}
				e.foot.write(r.Obj, fire)
				storeCell(r.State, BV(1, 8), fire)
			}
			cc.finish(nil)
			return true
		})
	}
	models["context.WithoutCancel"] = &Model{Plain: func(cc *CallCtx) Value {
		pr := ctxRefs(cc.args[0])
		cc.e.raise(cc.c, isNilTerm(pr), "cannot create context from nil parent")
		x := cc.e.newCtx(cc.c, "nocancel", nil, pr)
		storeCell(x.Own, TS.False, cc.c.g)
		return ctxValue(x)
	}}
	models["context.WithValue"] = &Model{Plain: func(cc *CallCtx) Value {
		pr := ctxRefs(cc.args[0])
		x := cc.e.newCtx(cc.c, "value", pr, pr)
		storeCell(x.Own, TS.False, cc.c.g)
		x.ValKey, x.ValVal = cc.args[1], cc.args[2]
		return ctxValue(x)
	}}
	models["ctx.cancel"] = &Model{Visible: true, Enabled: always,
		Exec: func(cc *CallCtx, ph int) (Value, bool) {
			e := cc.e
			x := cc.args[0].(*RefV).Alts[0].R.(*CtxObj)
			g := cc.c.g
			e.foot.write(x.Obj, g)
			was := e.ctxCancelled(x)
			storeCell(x.Own, TS.True, g)
			_ = was
			for _, r := range e.afters {
				st := termOf(r.State)
				var in *Term = TS.False
				for _, a := range r.Ctx.Alts {
					if y, ok := a.R.(*CtxObj); ok {
						in = Or(in, And(a.G, e.descOf(y, x)))
					}
				}
				fire := And(g, in, Eq(st, BV(0, 8)))
				if fire.IsFalse() {
					continue
				}
				e.foot.write(r.Obj, fire)
				storeCell(r.State, BV(1, 8), fire)
			}
			return nil, true
		}}
	ctxOf := func(cc *CallCtx) *CtxObj {
		r := pruneRefUnder(cc.args[0].(*RefV), cc.c.g)
		if len(r.Alts) != 1 {
			inconclusive("context receiver not unique at %s", cc.e.posOf(cc.c))
		}
		x, ok := r.Alts[0].R.(*CtxObj)
		if !ok {
			inconclusive("context method on %T", r.Alts[0].R)
		}
		return x
	}
	models["(verifCtx).Err"] = &Model{Visible: true, Enabled: always,
		Exec: func(cc *CallCtx, ph int) (Value, bool) {
			x := ctxOf(cc)
			cc.e.footCtx(x, cc.c.g)
			return cc.e.ctxErr(x), true
		}}
	models["(verifCtx).Done"] = &Model{Plain: func(cc *CallCtx) Value {
		x := ctxOf(cc)
		never := ctxNever(x, 0)
		if never.IsTrue() {
			return nilRef() // Background, TODO, WithValue / WithoutCancel of those: Done() is nil
		}
		if x.DoneCh == nil {
			x.DoneCh = cc.e.newChan(x.Name+".done", types.NewStruct(nil, nil), 0)
			x.DoneCh.Kind = "ctxdone"
			x.DoneCh.Ctx = x
		}
		if never.IsFalse() {
			return refTo(x.DoneCh)
		}
		return iteValue(never, nilRef(), refTo(x.DoneCh))
	}}
	models["(verifCtx).Value"] = &Model{Plain: func(cc *CallCtx) Value {
		x := ctxOf(cc)
		return cc.e.ctxLookup(refTo(x), cc.args[1], 0)
	}}
	models["context.AfterFunc"] = &Model{Plain: func(cc *CallCtx) Value {
		e := cc.e
		pr := ctxRefs(cc.args[0])
		e.raise(cc.c, isNilTerm(pr), "nil pointer dereference (AfterFunc on nil context)")
		name := e.dynName(cc.c, "afterfunc")
		var reg *AfterReg
		for _, r := range e.afters {
			if r.Obj.Name == name {
				reg = r
			}
		}
		if reg == nil {
			o := newObject(name)
			reg = &AfterReg{Obj: o, ID: len(e.afters)}
			reg.State = &Cell{T: types.Typ[types.Uint8], Obj: o, Val: BV(0, 8), Path: ".state"}
			o.Root = reg.State
			e.afters = append(e.afters, reg)
		}
		reg.Ctx = mergeParent(cc.c.g, pr, reg.Ctx)
		init := Ite(e.ctxCancelledV(pr), BV(1, 8), BV(0, 8))
		for _, a := range pr.Alts {
			if x, ok := a.R.(*CtxObj); ok {
				e.footCtx(x, And(cc.c.g, a.G))
			}
		}
		e.foot.write(reg.Obj, cc.c.g)
		storeCell(reg.State, init, cc.c.g)
		runner := e.pkg.Func("verifAfterFuncRunner")
		if runner == nil {
			inconclusive("harness support function verifAfterFuncRunner missing")
		}
		e.spawn(cc.c, runner, []Value{BV(uint64(reg.ID), 64), cc.args[1]}, nil)
		return refTo(&FuncVal{Model: "ctx.afterstop", Data: []Value{BV(uint64(reg.ID), 64)}})
	}}
	models["ctx.afterstop"] = &Model{Visible: true, Enabled: always,
		Exec: func(cc *CallCtx, ph int) (Value, bool) {
			reg := cc.e.afters[cc.args[0].(*Term).val]
			st := termOf(reg.State)
			ok := Eq(st, BV(0, 8))
			cc.e.foot.write(reg.Obj, cc.c.g)
			storeCell(reg.State, BV(2, 8), And(cc.c.g, ok))
			return ok, true
		}}
	extraIntrinsics["verifPendingAfterFuncs"] = func(cc *CallCtx) bool {
		n := BV(0, 64)
		for _, r := range cc.e.afters {
			n = Add(n, Ite(Eq(termOf(r.State), BV(0, 8)), BV(1, 64), BV(0, 64)))
		}
		cc.finish(n)
		return true
	}
	extraIntrinsics["verifCondWaiters"] = func(cc *CallCtx) bool {
		cd := cc.recvCell(0)
		if cd == nil {
			return false
		}
		w := Sub(termOf(condWaiters(cd)), termOf(condNotify(cd)))
		cc.e.foot.read(cd.Obj, cc.c.g)
		cc.finish(Ite(Eq(w, BV(0, 32)), BV(0, 64), BV(1, 64)))
		return true
	}
	extraIntrinsics["verifLastRandN"] = func(cc *CallCtx) bool { cc.finish(restrictTerm(cc.e.lastRandN, cc.c.g)); return true }
	extraIntrinsics["verifLastRand"] = func(cc *CallCtx) bool { cc.finish(restrictTerm(cc.e.lastRandR, cc.c.g)); return true }
	extraIntrinsics["verifAwaitAfterFunc"] = func(cc *CallCtx) bool {
		id := cc.args[0].(*Term)
		if !id.IsConst() {
			inconclusive("verifAwaitAfterFunc id not concrete")
		}
		reg := cc.e.afters[id.val]
		return cc.e.visibleOp(cc.c, cc.rest,
			func(int) *Term { cc.e.foot.read(reg.Obj, cc.c.g); return Eq(termOf(reg.State), BV(1, 8)) },
			func(int) bool { cc.finish(nil); return true })
	}

	// ---------------- time ----------------
	models["time.Now"] = &Model{Plain: func(cc *CallCtx) Value { return cc.e.timeNow(cc.c) }}
	models["time.Since"] = &Model{Plain: func(cc *CallCtx) Value {
		now := cc.e.timeNow(cc.c)
		return Sub(timeExt(now), timeExt(cc.args[0]))
	}}
	models["(time.Time).Add"] = &Model{Plain: func(cc *CallCtx) Value {
		t := cc.args[0].(*StructV)
		return &StructV{F: []Value{t.F[0], Add(t.F[1].(*Term), cc.args[1].(*Term)), t.F[2]}}
	}}
	models["(time.Time).Sub"] = &Model{Plain: func(cc *CallCtx) Value {
		return Sub(timeExt(cc.args[0]), timeExt(cc.args[1]))
	}}
	models["(time.Time).Before"] = &Model{Plain: func(cc *CallCtx) Value { return Slt(timeExt(cc.args[0]), timeExt(cc.args[1])) }}
	models["(time.Time).After"] = &Model{Plain: func(cc *CallCtx) Value { return Slt(timeExt(cc.args[1]), timeExt(cc.args[0])) }}
	models["(time.Time).IsZero"] = &Model{Plain: func(cc *CallCtx) Value { return Eq(timeExt(cc.args[0]), BV(0, 64)) }}
	models["(time.Duration).String"] = &Model{Plain: func(cc *CallCtx) Value { return symStr("duration") }}
	models["time.Sleep"] = &Model{Visible: true, Enabled: always, Exec: func(cc *CallCtx, ph int) (Value, bool) { return nil, true }}
	mkTimer := func(kind string) *Model {
		return &Model{Plain: func(cc *CallCtx) Value {
			e := cc.e
			d := cc.args[0].(*Term)
			if kind == "ticker" {
				e.raise(cc.c, Sle(d, BV(0, 64)), "non-positive interval for NewTicker")
			}
			t := cc.site.Common.Value.Type().(*types.Signature).Results().At(0).Type().(*types.Pointer).Elem()
			cell := e.allocCell(cc.c, t, kind)
			tp := e.prog.ImportedPackage("time").Type("Time").Type()
			name := cell.Obj.Name + ".C"
			var ch *ChanObj
			if o, ok := e.objs[name]; ok {
				ch = o.Root.Val.(*RefV).Alts[0].R.(*ChanObj)
			} else {
				ch = e.newChan(name, tp, 1)
				ch.Kind = kind
			}
			storeCell(ch.Extra, TS.False, cc.c.g)
			storeCell(fieldCell(cell, "C"), refTo(ch), cc.c.g)
			return refTo(cell)
		}}
	}
	models["time.NewTimer"] = mkTimer("timer")
	models["time.NewTicker"] = mkTimer("ticker")
	stop := &Model{Plain: func(cc *CallCtx) Value {
		cell := cc.recvCell(0)
		if cell == nil {
			return TS.False
		}
		r := fieldCell(cell, "C").Val.(*RefV)
		was := TS.False
		for _, a := range r.Alts {
			ch, ok := a.R.(*ChanObj)
			if !ok {
				continue
			}
			g := And(cc.c.g, a.G)
			if g.IsFalse() {
				continue
			}
			was = Ite(a.G, Not(termOf(ch.Extra)), was)
			cc.e.foot.write(ch.Obj, g)
			storeCell(ch.Extra, TS.True, g)
		}
		return was
	}}
	models["(*time.Timer).Stop"] = stop
	models["(*time.Ticker).Stop"] = &Model{Plain: func(cc *CallCtx) Value { stop.Plain(cc); return nil }}

	// ---------------- misc ----------------
	models["math/rand.Int63n"] = &Model{Plain: func(cc *CallCtx) Value {
		n := cc.args[0].(*Term)
		cc.e.raise(cc.c, Sle(n, BV(0, 64)), "invalid argument to Int63n")
		timeCounter++
		r := Var(fmt.Sprintf("rand_%d", timeCounter), 64)
		cc.e.constraints = append(cc.e.constraints, Implies(cc.c.g, And(Sle(BV(0, 64), r), Slt(r, n))))
		cc.e.randLog = append(cc.e.randLog, RandRec{G: cc.c.g, N: n, R: r})
		cc.e.lastRandN = iteValue(cc.c.g, n, cc.e.lastRandN).(*Term)
		cc.e.lastRandR = iteValue(cc.c.g, r, cc.e.lastRandR).(*Term)
		return r
	}}
	models["errors.Is"] = &Model{Plain: func(cc *CallCtx) Value {
		// errors in scope do not wrap (fatalError is unwrapped by the library itself): identity comparison,
		// and nil target only matches nil
		return eqValue(cc.args[0], cc.args[1])
	}}
	models["fmt.Errorf"] = &Model{Plain: func(cc *CallCtx) Value { return cc.e.freshErr(cc.c, "fmt.Errorf") }}
	models["fmt.Sprintf"] = &Model{Plain: func(cc *CallCtx) Value { return symStr("sprintf") }}
	models["fmt.Sprint"] = models["fmt.Sprintf"]
	models["(verifRuntimeError).Error"] = &Model{Plain: func(cc *CallCtx) Value { return cc.args[0] }}
}

func (e *Engine) ctxLookup(r *RefV, key Value, depth int) Value {
	if depth > 16 {
		inconclusive("context value chain too deep")
	}
	var res Value = nilRef()
	for _, a := range r.Alts {
		x, ok := a.R.(*CtxObj)
		if !ok {
			continue
		}
		var v Value = nilRef()
		if x.ValFrom != nil {
			v = e.ctxLookup(x.ValFrom, key, depth+1)
		}
		if x.ValKey != nil {
			v = iteValue(eqValue(x.ValKey, key), x.ValVal, v)
		}
		res = iteValue(a.G, v, res)
	}
	return res
}

type RandRec struct {
	G *Term
	N *Term
	R *Term
}

// restrictTerm resolves top-level ite chains whose conditions are decided (syntactically) by guard g.
func restrictTerm(t *Term, g *Term) *Term {
	for t.op == OpIte {
		if x := And(g, Not(t.args[0])); x.IsFalse() || semFalse(x) {
			t = t.args[1]
		} else if y := And(g, t.args[0]); y.IsFalse() || semFalse(y) {
			t = t.args[2]
		} else {
			break
		}
	}
	return t
}

// ctxErr: the error a context reports: its own (DeadlineExceeded if it ended by deadline, else Canceled), or
// the error of the nearest cancelled ancestor.
func (e *Engine) ctxErr(x *CtxObj) Value {
	var res Value = nilRef()
	if x.Parent != nil {
		for _, a := range x.Parent.Alts {
			if p, ok := a.R.(*CtxObj); ok {
				res = iteValue(a.G, e.ctxErr(p), res)
			}
		}
	}
	own := x.Own.Val.(*Term)
	var ownErr Value = e.canceledErr()
	if x.Deadline != nil {
		p := e.prog.ImportedPackage("context")
		de := loadCell(e.globalCell(p.Var("DeadlineExceeded")))
		ownErr = iteValue(termOf(x.Deadline), de, ownErr)
	}
	return iteValue(own, ownErr, res)
}
