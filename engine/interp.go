package main

// Guarded, path-merging symbolic interpreter over go/ssa.

import (
	"fmt"
	"go/constant"
	"go/token"
	"go/types"
	"os"
	"runtime/debug"
	"strings"
	"sync"
	"sync/atomic"
	"time"

	"golang.org/x/tools/go/ssa"
)

type Inconclusive struct{ Msg string }

func inconclusive(format string, a ...interface{}) {
	msg := fmt.Sprintf(format, a...)
	if os.Getenv("VERIF_DEBUG") != "" {
		msg += "\n" + string(debug.Stack())
	}
	panic(Inconclusive{msg})
}

const (
	modeNormal = iota
	modeUnwinding
	modeRecovered
)

type loopCtr struct {
	h     *ssa.BasicBlock
	iter  int  // iterations within the current transition (ordering / merging inside a transition)
	unw   int  // iterations within the current transition (unwinding bound)
	epoch int  // number of completed iterations on this path that named an object (kept across transitions)
	dirty bool // the current iteration has named an object
}

type DeferRec struct {
	Common *ssa.CallCommon
	Fn     Value
	Args   []Value
	Pos    token.Pos
}

type IterV struct {
	M      *MapObj
	Pos    *Term // BV16
	MinPos int
}

type Frame struct {
	fn       *ssa.Function
	blk      *ssa.BasicBlock
	idx      int
	regs     map[ssa.Value]Value
	bindings []Value
	defers   []*DeferRec
	loops    []loopCtr
	mode     int
	panicVal Value
	deferred bool // this frame runs a deferred call of the frame below
	callPos  string
	pending  *DeferRec // deferred call being executed by this frame (model/builtin targets rest here)
	hookBlk  int
	hookIdx  int
	opTag    string // identity of the concretized operand of the visible op at (opTagBlk, opTagIdx)
	opTagBlk int
	opTagIdx int
	onReturn func(e *Engine, c *Config, res Value)
	onUnwind func(e *Engine, c *Config)
}

type Config struct {
	g           *Term
	gor         *Gor
	stack       []*Frame
	phase       int
	fuel        bool
	held        map[*Cell]*Term // ghost lockset: mutex cell -> BV2 mode (0 none, 1 read, 2 write)
	done        bool
	feasChecked int
	panicAt     string // where the panic being unwound was raised (for reporting)
	atomic      int // >0: inside verifAtomic (visible ops run inline)
	inHook      int
	ok          []int
	mk          string
}

type Gor struct {
	idx    int
	name   string
	rest   map[string]*Config
	order  []string
	doneG  *Term
	daemon bool
	fnName string
	// identity for the native replay controller: spawned by goroutine `parent` at the go statement at
	// `site` ("file:line"), as the occ-th goroutine from that (parent, site); site "" = no native identity
	parent int
	site   string
	occ    int
}

type Obl struct {
	ID   string
	G    *Term
	Cond *Term
	Pos  string
	Step int
}

type Engine struct {
	L       *Loaded
	prog    *ssa.Program
	pkg     *ssa.Package
	mode    string // "seq" | "sched"
	T       int
	unwind  int
	globals map[*ssa.Global]*Cell
	objs    map[string]*Object
	gors    []*Gor
	gorBy   map[string]*Gor

	asserts     []Obl
	reaches     map[string]*Term
	reachOrd    []string
	constraints []*Term
	unwindFail  *Term
	unwindWhere map[string]bool
	crashes     []Obl
	blocked     *Term
	blockedAt   map[string]bool
	finallyFns  []Value
	daemonPats  []string
	nondets     map[string]*Term
	nondetOrd   []string
	funcsSeen   map[string]int
	stubsSeen   map[string]int
	assumes     int
	merges      int
	instrs      int
	guardsOn    bool
	guardViol   []Obl

	// transition-local
	work          []*Config
	step          int
	cur           *Gor
	foot          *Footprint
	loopsOf       map[*ssa.Function]*loopInfo
	rpoOf         map[*ssa.Function]map[*ssa.BasicBlock]int
	ctxs          []*CtxObj
	afters        []*AfterReg
	obsLog        []ObsRec
	choiceN       int
	stepMax       int
	noPOR         bool
	randLog       []RandRec
	settleFeas    int
	beforeHooks   map[string]Value
	unwindFn      map[string]int
	usedMemo      map[string]map[ssa.Value]bool
	tryFailCount  *Term
	maxTryFails   int
	defaultCount  *Term
	maxDefaults   int
	lastRandN     *Term
	lastRandR     *Term
	trace         bool
	maxSlice      int
	feas          *Solver
	feasPool      []*Solver
	feasPar       int
	feasUnk       int
	feasTimeout   int
	feasN         int
	feasCut       int
	feasMs        int64
	feasMemo      map[int]bool
	noFeas        bool
	loopAllocMemo map[string]bool
	fnAllocMemo   map[*ssa.Function]bool
	dumped        bool
	backEdgeFeas  bool
	profile       map[string]int
	eager         map[string]bool
	lazyPanics    []Obl
}

type ObsRec struct {
	G    *Term
	Tag  string
	Vals []Value
}

func NewEngine(l *Loaded) *Engine {
	e := &Engine{L: l, prog: l.Prog, pkg: l.Pkg, mode: "seq", unwind: 10,
		globals: map[*ssa.Global]*Cell{}, objs: map[string]*Object{}, gorBy: map[string]*Gor{},
		reaches: map[string]*Term{}, unwindFail: TS.False, blocked: TS.False, nondets: map[string]*Term{},
		funcsSeen: map[string]int{}, stubsSeen: map[string]int{}, loopsOf: map[*ssa.Function]*loopInfo{},
		rpoOf: map[*ssa.Function]map[*ssa.BasicBlock]int{}, unwindWhere: map[string]bool{}, blockedAt: map[string]bool{},
		usedMemo: map[string]map[ssa.Value]bool{}, defaultCount: BV(0, 8), tryFailCount: BV(0, 8), maxTryFails: -1, maxDefaults: -1, lastRandN: BV(0, 64), lastRandR: BV(0, 64), stepMax: 4000000, maxSlice: 8, loopAllocMemo: map[string]bool{}, fnAllocMemo: map[*ssa.Function]bool{}}
	return e
}

// ---------------- loops / ordering ----------------

type loopInfo struct {
	body   map[*ssa.BasicBlock]map[*ssa.BasicBlock]bool // header -> body set
	isBack map[[2]int]bool
}

func (e *Engine) loopInfoOf(fn *ssa.Function) *loopInfo {
	if li, ok := e.loopsOf[fn]; ok {
		return li
	}
	li := &loopInfo{body: map[*ssa.BasicBlock]map[*ssa.BasicBlock]bool{}, isBack: map[[2]int]bool{}}
	for _, u := range fn.Blocks {
		for _, h := range u.Succs {
			if h.Dominates(u) {
				li.isBack[[2]int{u.Index, h.Index}] = true
				set := li.body[h]
				if set == nil {
					set = map[*ssa.BasicBlock]bool{h: true}
					li.body[h] = set
				}
				// backward reachability from u without passing h
				st := []*ssa.BasicBlock{u}
				for len(st) > 0 {
					b := st[len(st)-1]
					st = st[:len(st)-1]
					if set[b] {
						continue
					}
					set[b] = true
					for _, p := range b.Preds {
						st = append(st, p)
					}
				}
			}
		}
	}
	e.loopsOf[fn] = li
	// rpo with exits after bodies: DFS visiting the last successor first
	rpo := map[*ssa.BasicBlock]int{}
	var post []*ssa.BasicBlock
	seen := map[*ssa.BasicBlock]bool{}
	var dfs func(b *ssa.BasicBlock)
	dfs = func(b *ssa.BasicBlock) {
		seen[b] = true
		for i := len(b.Succs) - 1; i >= 0; i-- {
			if !seen[b.Succs[i]] {
				dfs(b.Succs[i])
			}
		}
		post = append(post, b)
	}
	if len(fn.Blocks) > 0 {
		dfs(fn.Blocks[0])
	}
	if fn.Recover != nil && !seen[fn.Recover] {
		dfs(fn.Recover)
	}
	for i, b := range post {
		rpo[b] = len(post) - 1 - i
	}
	for _, b := range fn.Blocks {
		if _, ok := rpo[b]; !ok {
			rpo[b] = len(post) + b.Index
		}
	}
	e.rpoOf[fn] = rpo
	return li
}

// orderKey gives the virtual position of a config in the unrolled program.
func (e *Engine) orderKey(c *Config) []int {
	var k []int
	for _, f := range c.stack {
		e.loopInfoOf(f.fn)
		rpo := e.rpoOf[f.fn]
		for _, l := range f.loops {
			k = append(k, rpo[l.h]*2, l.iter)
		}
		md := 0
		if f.mode != modeNormal {
			md = 1
		}
		k = append(k, rpo[f.blk]*2+1, f.idx*2+md, -len(f.defers))
	}
	return k
}

func lessKey(a, b []int) bool {
	for i := 0; i < len(a) && i < len(b); i++ {
		if a[i] != b[i] {
			return a[i] < b[i]
		}
	}
	// deeper (longer) first
	return len(a) > len(b)
}

func (e *Engine) mergeKey(c *Config) string {
	var sb strings.Builder
	for fi, f := range c.stack {
		fmt.Fprintf(&sb, "%p:%d:%d:%d:%v", f.fn, f.blk.Index, f.idx, f.mode, f.deferred)
		for _, l := range f.loops {
			fmt.Fprintf(&sb, "L%d.%d.%d", l.h.Index, l.iter, l.epoch)
		}
		for _, d := range f.defers {
			fmt.Fprintf(&sb, "D%d", d.Pos)
		}
		if f.pending != nil {
			fmt.Fprintf(&sb, "P%d", f.pending.Pos)
		}
		// the identity a register was concretised to matters only for the instruction being executed (top
		// frame); an outer frame parked at its call instruction moves on when the callee returns
		if fi == len(c.stack)-1 && f.opTag != "" && f.opTagBlk == f.blk.Index && f.opTagIdx == f.idx {
			sb.WriteString("T" + f.opTag)
		}
		sb.WriteString("|")
	}
	fmt.Fprintf(&sb, "ph%d.a%d.h%d", c.phase, c.atomic, c.inHook)
	return sb.String()
}

// siteKey: dynamic position (stack of call sites with the iteration counters of the enclosing
// loops) used for deterministic naming of objects and goroutines. Two executions of the same site by
// one goroutine on one path are separated by a back edge of an enclosing loop, whose counter is kept
// across transitions for every loop that may allocate (see resetAtRest).
func (e *Engine) siteKey(c *Config) string {
	var sb strings.Builder
	for _, f := range c.stack {
		fmt.Fprintf(&sb, "%s.%d.%d", f.fn.String(), f.blk.Index, f.idx)
		for _, l := range f.loops {
			fmt.Fprintf(&sb, "~%d.%d.%d", l.h.Index, l.iter, l.epoch)
		}
		sb.WriteString("/")
	}
	return sb.String()
}

func (e *Engine) dynName(c *Config, kind string) string {
	n := fmt.Sprintf("%s@%s[g%d]", kind, e.siteKey(c), c.gor.idx)
	for _, f := range c.stack {
		for i := range f.loops {
			f.loops[i].dirty = true
		}
	}
	return n
}

// ---------------- config helpers ----------------

func (f *Frame) clone() *Frame {
	n := *f
	n.regs = make(map[ssa.Value]Value, len(f.regs))
	for k, v := range f.regs {
		n.regs[k] = v
	}
	n.defers = append([]*DeferRec(nil), f.defers...)
	n.loops = append([]loopCtr(nil), f.loops...)
	return &n
}

func (c *Config) clone() *Config {
	n := *c
	n.stack = make([]*Frame, len(c.stack))
	for i, f := range c.stack {
		n.stack[i] = f.clone()
	}
	if c.held != nil {
		n.held = make(map[*Cell]*Term, len(c.held))
		for k, v := range c.held {
			n.held[k] = v
		}
	}
	return &n
}

func (c *Config) top() *Frame { return c.stack[len(c.stack)-1] }

// mergeInto merges b into a (same mergeKey).
func (e *Engine) mergeInto(a, b *Config) {
	e.merges++
	cond := b.g // under b.g take b's values (guards are disjoint)
	for i, fa := range a.stack {
		fb := b.stack[i]
		for j := range fa.loops {
			if j < len(fb.loops) && fb.loops[j].dirty {
				fa.loops[j].dirty = true
			}
		}
		for k, vb := range fb.regs {
			va, ok := fa.regs[k]
			if !ok {
				fa.regs[k] = vb
				continue
			}
			if va != vb {
				fa.regs[k] = iteValue(cond, vb, va)
			}
		}
		if fa.panicVal != nil || fb.panicVal != nil {
			fa.panicVal = iteValue(cond, fb.panicVal, fa.panicVal)
		}
		for j := range fa.defers {
			da, db := fa.defers[j], fb.defers[j]
			if da == db {
				continue
			}
			nd := &DeferRec{Common: da.Common, Pos: da.Pos}
			if da.Fn != nil {
				nd.Fn = iteValue(cond, db.Fn, da.Fn)
			}
			for k := range da.Args {
				nd.Args = append(nd.Args, iteValue(cond, db.Args[k], da.Args[k]))
			}
			fa.defers[j] = nd
		}
		if fa.pending != nil && fb.pending != nil && fa.pending != fb.pending {
			da, db := fa.pending, fb.pending
			nd := &DeferRec{Common: da.Common, Pos: da.Pos}
			if da.Fn != nil {
				nd.Fn = iteValue(cond, db.Fn, da.Fn)
			}
			for k := range da.Args {
				nd.Args = append(nd.Args, iteValue(cond, db.Args[k], da.Args[k]))
			}
			fa.pending = nd
		}
		for k := range fa.bindings {
			if fa.bindings[k] != fb.bindings[k] {
				nb := append([]Value(nil), fa.bindings...)
				for k2 := range nb {
					nb[k2] = iteValue(cond, fb.bindings[k2], fa.bindings[k2])
				}
				fa.bindings = nb
				break
			}
		}
	}
	if a.held != nil || b.held != nil {
		nh := map[*Cell]*Term{}
		for k, v := range a.held {
			nh[k] = v
		}
		for k, vb := range b.held {
			va, ok := nh[k]
			if !ok {
				va = BV(0, 2)
			}
			nh[k] = Ite(cond, vb, va)
		}
		for k, va := range a.held {
			if _, ok := b.held[k]; !ok {
				nh[k] = Ite(cond, BV(0, 2), va)
			}
		}
		a.held = nh
	}
	a.g = Or(a.g, b.g)
	a.fuel = a.fuel && b.fuel
}

func (e *Engine) enqueue(c *Config) {
	if c.g.IsFalse() || semFalse(c.g) {
		return
	}
	c.ok = e.orderKey(c)
	c.mk = e.mergeKey(c)
	e.work = append(e.work, c)
}

// split returns (part where cond holds, part where it does not); either may be nil. The
// original config object is reused for one of them.
func (e *Engine) split(c *Config, cond *Term) (*Config, *Config) {
	gt := And(c.g, cond)
	gf := And(c.g, Not(cond))
	if gt.IsFalse() || semFalse(gt) {
		c.g = gf
		return nil, c
	}
	if gf.IsFalse() || semFalse(gf) {
		c.g = gt
		return c, nil
	}
	ct := c.clone()
	ct.g = gt
	c.g = gf
	return ct, c
}

// ---------------- values ----------------

func (e *Engine) constValue(k *ssa.Const) Value {
	t := k.Type()
	if k.Value == nil {
		return zeroValue(t)
	}
	switch u := t.Underlying().(type) {
	case *types.Basic:
		switch {
		case u.Info()&types.IsBoolean != 0:
			return BoolT(constant.BoolVal(k.Value))
		case u.Info()&types.IsString != 0:
			return mkStr(constant.StringVal(k.Value))
		case u.Info()&types.IsInteger != 0:
			w := widthOf(t)
			if v, ok := constant.Int64Val(constant.ToInt(k.Value)); ok {
				return BV(uint64(v), w)
			}
			if v, ok := constant.Uint64Val(constant.ToInt(k.Value)); ok {
				return BV(v, w)
			}
			inconclusive("constant out of range: %v", k)
		case u.Info()&types.IsFloat != 0:
			f, _ := constant.Float64Val(k.Value)
			_ = f
			return BV(0, widthOf(t))
		}
	}
	inconclusive("unsupported constant %v of type %v", k, t)
	return nil
}

func (e *Engine) globalCell(g *ssa.Global) *Cell {
	if c, ok := e.globals[g]; ok {
		return c
	}
	obj := newObject("global:" + g.String())
	et := g.Type().(*types.Pointer).Elem()
	c := newCell(et, obj, "")
	obj.Root = c
	e.globals[g] = c
	e.initExternalGlobal(g, c)
	return c
}

func (e *Engine) get(f *Frame, v ssa.Value) Value {
	switch x := v.(type) {
	case *ssa.Const:
		return e.constValue(x)
	case *ssa.Global:
		return refTo(e.globalCell(x))
	case *ssa.Function:
		return refTo(&FuncVal{Fn: x})
	case *ssa.FreeVar:
		for i, fv := range f.fn.FreeVars {
			if fv == x {
				return f.bindings[i]
			}
		}
		inconclusive("free var not found: %v", x)
	case *ssa.Builtin:
		inconclusive("builtin used as value: %v", x)
	}
	r, ok := f.regs[v]
	if !ok {
		inconclusive("register %s undefined in %s", v.Name(), f.fn)
	}
	return r
}

func (e *Engine) posOf(c *Config) string {
	if len(c.stack) == 0 {
		return "?"
	}
	f := c.top()
	if f.pending != nil && f.pending.Pos.IsValid() {
		p := e.prog.Fset.Position(f.pending.Pos)
		if p.IsValid() {
			return fmt.Sprintf("%s:%d", shortFile(p.Filename), p.Line)
		}
	}
	if f.idx < len(f.blk.Instrs) {
		p := e.prog.Fset.Position(f.blk.Instrs[f.idx].Pos())
		if p.IsValid() {
			return fmt.Sprintf("%s:%d", shortFile(p.Filename), p.Line)
		}
	}
	return f.fn.String()
}

func shortFile(s string) string {
	if i := strings.LastIndex(s, "/"); i >= 0 {
		return s[i+1:]
	}
	return s
}

// ---------------- object allocation ----------------

func (e *Engine) allocCell(c *Config, t types.Type, kind string) *Cell {
	name := e.dynName(c, kind)
	if o, ok := e.objs[name]; ok {
		return o.Root
	}
	o := newObject(name)
	o.Root = newCell(t, o, "")
	e.objs[name] = o
	e.applyGuardTable(o.Root)
	return o.Root
}

// allocLocal names a non-escaping local by its static site only (call stack without loop counters).
func (e *Engine) allocLocal(c *Config, t types.Type) *Cell {
	var sb strings.Builder
	sb.WriteString("local@")
	for _, f := range c.stack {
		fmt.Fprintf(&sb, "%s.%d.%d/", f.fn.String(), f.blk.Index, f.idx)
	}
	fmt.Fprintf(&sb, "[g%d]", c.gor.idx)
	name := sb.String()
	if o, ok := e.objs[name]; ok {
		return o.Root
	}
	o := newObject(name)
	o.Local = true
	o.Root = newCell(t, o, "")
	e.objs[name] = o
	e.applyGuardTable(o.Root)
	return o.Root
}

func (e *Engine) allocArray(c *Config, elem types.Type, n int, kind string) *Cell {
	name := e.dynName(c, kind) + fmt.Sprintf("#%d", n)
	if o, ok := e.objs[name]; ok {
		if len(o.Root.Kids) != n {
			inconclusive("array object %s re-allocated with a different size (%d vs %d)", name, len(o.Root.Kids), n)
		}
		return o.Root
	}
	o := newObject(name)
	o.Root = newArrayCell(elem, n, o, "")
	e.objs[name] = o
	return o.Root
}

func (e *Engine) allocMap(c *Config, t *types.Map) *MapObj {
	name := e.dynName(c, "map")
	if o, ok := e.objs[name]; ok {
		return o.Root.Val.(*RefV).Alts[0].R.(*MapObj)
	}
	o := newObject(name)
	o.IsMap = true
	m := &MapObj{Obj: o, T: t}
	o.Root = &Cell{T: t, Obj: o, Val: refTo(m)}
	e.objs[name] = o
	return m
}

func (e *Engine) allocChan(c *Config, elem types.Type, capN int) *ChanObj {
	name := e.dynName(c, "chan")
	if o, ok := e.objs[name]; ok {
		return o.Root.Val.(*RefV).Alts[0].R.(*ChanObj)
	}
	return e.newChan(name, elem, capN)
}

func (e *Engine) newChan(name string, elem types.Type, capN int) *ChanObj {
	o := newObject(name)
	o.IsChan = true
	ch := &ChanObj{Obj: o, T: elem, Cap: capN}
	n := capN
	if n == 0 {
		n = 1
	}
	for i := 0; i < n; i++ {
		ch.Buf = append(ch.Buf, newCell(elem, o, fmt.Sprintf(".buf[%d]", i)))
	}
	ch.Count = &Cell{T: types.Typ[types.Int], Obj: o, Val: BV(0, 64), Path: ".count"}
	ch.Closed = &Cell{T: types.Typ[types.Bool], Obj: o, Val: TS.False, Path: ".closed"}
	ch.Extra = &Cell{T: types.Typ[types.Bool], Obj: o, Val: TS.False, Path: ".extra"}
	o.Root = &Cell{T: types.NewChan(types.SendRecv, elem), Obj: o, Val: refTo(ch)}
	e.objs[name] = o
	return ch
}

// ---------------- transition processing ----------------

// runWork processes the worklist until every config rests, finishes or is dropped.
// rest(c) is called for configs that reach a resting point.
func (e *Engine) runWork(rest func(c *Config)) {
	for len(e.work) > 0 {
		// pick minimal order key; merge equal merge keys
		best := 0
		for i := range e.work {
			if e.work[i].ok == nil {
				e.work[i].ok = e.orderKey(e.work[i])
				e.work[i].mk = e.mergeKey(e.work[i])
			}
		}
		bk := e.work[0].ok
		for i := 1; i < len(e.work); i++ {
			if lessKey(e.work[i].ok, bk) {
				best, bk = i, e.work[i].ok
			}
		}
		c := e.work[best]
		e.work[best] = e.work[len(e.work)-1]
		e.work = e.work[:len(e.work)-1]
		if len(c.stack) > 0 {
			for i := 0; i < len(e.work); {
				o := e.work[i]
				if o.gor == c.gor && len(o.stack) == len(c.stack) && o.mk == c.mk {
					e.mergeInto(c, o)
					e.work[i] = e.work[len(e.work)-1]
					e.work = e.work[:len(e.work)-1]
					continue
				}
				i++
			}
		}
		c.ok, c.mk = nil, ""
		if e.trace && e.instrs%2000 < 3 {
			fmt.Fprintf(os.Stderr, "STAT instrs=%d work=%d merges=%d terms=%d lazy=%d\n", e.instrs, len(e.work), e.merges, TS.next, len(e.lazyPanics))
			if len(e.work) > 200 && !e.dumped {
				e.dumped = true
				for i := 0; i < 12 && i < len(e.work); i++ {
					w := e.work[i]
					fmt.Fprintf(os.Stderr, "WORK %d: pos=%s key=%s\n", i, e.posOf(w), w.mk)
				}
			}
		}
		if c.g.IsFalse() {
			continue
		}
		e.advance(c, rest)
	}
}

// advance runs config c forward until it forks, rests, or finishes.
func (e *Engine) advance(c *Config, rest func(c *Config)) {
	for {
		if c.g.IsFalse() {
			return
		}
		e.instrs++
		if e.instrs > e.stepMax {
			inconclusive("instruction budget exceeded")
		}
		if (e.trace || e.instrs > e.stepMax-300) && len(c.stack) > 0 {
			f := c.top()
			is := "?"
			if f.idx < len(f.blk.Instrs) {
				is = f.blk.Instrs[f.idx].String()
			}
			fmt.Fprintf(os.Stderr, "TRACE g%d depth=%d %s b%d.%d mode=%d pend=%v | %s\n", c.gor.idx, len(c.stack), f.fn.Name(), f.blk.Index, f.idx, f.mode, f.pending != nil, is)
		}
		if len(c.stack) == 0 {
			c.done = true
			rest(c)
			return
		}
		f := c.top()
		if f.pending != nil {
			if !e.dispatch(c, f, rest) {
				return
			}
			continue
		}
		if f.mode != modeNormal {
			if !e.unwindStep(c) {
				return
			}
			continue
		}
		if f.idx >= len(f.blk.Instrs) {
			inconclusive("fell off block %s in %s", f.blk, f.fn)
		}
		ins := f.blk.Instrs[f.idx]
		t0 := TS.next
		pos0 := ""
		if e.profile != nil {
			pos0 = fmt.Sprintf("%s b%d.%d %T", f.fn.Name(), f.blk.Index, f.idx, ins)
		}
		cont := e.exec(c, f, ins, rest)
		if e.profile != nil {
			e.profile[pos0] += TS.next - t0
		}
		if !cont {
			return
		}
	}
}

// jump moves the top frame to block b (evaluating phis on the edge) and maintains loop counters.
// Returns false if the unwinding bound was hit (config dropped).
func (e *Engine) jump(c *Config, f *Frame, to *ssa.BasicBlock) bool {
	from := f.blk
	// phis evaluated on the edge
	var phiVals []Value
	var phis []*ssa.Phi
	pi := -1
	for i, p := range to.Preds {
		if p == from {
			pi = i
			break
		}
	}
	for _, ins := range to.Instrs {
		ph, ok := ins.(*ssa.Phi)
		if !ok {
			break
		}
		phis = append(phis, ph)
		phiVals = append(phiVals, e.get(f, ph.Edges[pi]))
	}
	for i, ph := range phis {
		f.regs[ph] = phiVals[i]
	}
	li := e.loopInfoOf(f.fn)
	// pop loops not containing 'to'
	for len(f.loops) > 0 {
		top := f.loops[len(f.loops)-1]
		if li.body[top.h][to] {
			break
		}
		f.loops = f.loops[:len(f.loops)-1]
	}
	if _, isHeader := li.body[to]; isHeader {
		if len(f.loops) > 0 && f.loops[len(f.loops)-1].h == to && li.isBack[[2]int{from.Index, to.Index}] {
			lc := &f.loops[len(f.loops)-1]
			lc.iter++
			lc.unw++
			if lc.dirty {
				lc.epoch++
				lc.dirty = false
			}
			if e.backEdgeFeas && !e.feasible(c.g) {
				c.g = TS.False
				return false
			}
			bound := e.unwind
			if b, ok := e.unwindFn[f.fn.Name()]; ok {
				bound = b
			}
			if lc.unw > bound || (e.mode == "sched" && lc.epoch > bound) {
				e.unwindFail = Or(e.unwindFail, c.g)
				p := e.prog.Fset.Position(to.Instrs[0].Pos())
				e.unwindWhere[fmt.Sprintf("%s (%s:%d)", f.fn, shortFile(p.Filename), p.Line)] = true
				c.g = TS.False
				return false
			}
		} else if !(len(f.loops) > 0 && f.loops[len(f.loops)-1].h == to) {
			f.loops = append(f.loops, loopCtr{h: to})
		}
	}
	f.blk = to
	f.idx = len(phis)
	f.opTag = ""
	return true
}

// ---------------- panics / defers ----------------

var modelErrType types.Type

func init() {
	tn := types.NewTypeName(token.NoPos, nil, "verifRuntimeError", nil)
	modelErrType = types.NewNamed(tn, types.Typ[types.String], nil)
}

func runtimeErrVal(what string) Value {
	return refTo(&IfaceVal{T: modelErrType, V: mkStr(what)})
}

// raise splits off the part of c where cond holds into a panicking config (queued).
func (e *Engine) raise(c *Config, cond *Term, what string) {
	g := And(c.g, cond)
	if g.IsFalse() || semFalse(g) {
		return
	}
	if !cond.IsTrue() && !c.top().deferred {
		site := e.posOf(c) + " " + what
		if !e.eager[site] {
			// lazy: record the potential runtime panic without executing its unwinding; main re-runs
			// the harness with this site eager if the recorded guard turns out to be satisfiable
			e.lazyPanics = append(e.lazyPanics, Obl{ID: site, G: g, Cond: TS.False, Pos: site, Step: e.step})
			c.g = And(c.g, Not(cond))
			return
		}
	}
	pc := c.clone()
	pc.g = g
	pc.fuel = false
	pf := pc.top()
	pf.pending = nil
	pf.mode = modeUnwinding
	pf.panicVal = runtimeErrVal(what)
	pc.panicAt = e.posOf(c)
	e.enqueue(pc)
	c.g = And(c.g, Not(cond))
}

func (e *Engine) raiseVal(c *Config, v Value) {
	f := c.top()
	c.panicAt = e.posOf(c)
	f.mode = modeUnwinding
	f.panicVal = v
}

// unwindStep handles a frame in unwinding/recovered mode. Returns false if c was consumed.
func (e *Engine) unwindStep(c *Config) bool {
	f := c.top()
	if len(f.defers) > 0 {
		d := f.defers[len(f.defers)-1]
		f.defers = f.defers[:len(f.defers)-1]
		e.invokeDeferred(c, d)
		return false // invokeDeferred enqueues
	}
	if f.mode == modeRecovered {
		if f.fn.Recover != nil {
			f.mode = modeNormal
			f.panicVal = nil
			f.loops = nil
			f.blk = f.fn.Recover
			f.idx = 0
			return true
		}
		// return zero values
		var res Value
		sig := f.fn.Signature
		switch sig.Results().Len() {
		case 0:
		case 1:
			res = zeroValue(sig.Results().At(0).Type())
		default:
			res = zeroValue(sig.Results())
		}
		e.doReturn(c, res)
		return true
	}
	// still panicking: propagate to the caller
	pv := f.panicVal
	wasDeferred := f.deferred
	c.stack = c.stack[:len(c.stack)-1]
	if f.onUnwind != nil && len(c.stack) > 0 {
		f.onUnwind(e, c)
	}
	if len(c.stack) == 0 {
		e.crashes = append(e.crashes, Obl{ID: "panic", G: c.g, Cond: TS.False, Pos: c.gor.name + ": " + panicStr(pv) + " raised at " + c.panicAt, Step: e.step})
		c.done = true
		e.goroutineDone(c)
		c.g = TS.False
		return false
	}
	p := c.top()
	_ = wasDeferred
	p.mode = modeUnwinding
	p.panicVal = pv
	return true
}

func panicStr(v Value) string {
	if r, ok := v.(*RefV); ok {
		var parts []string
		for _, a := range r.Alts {
			if iv, ok := a.R.(*IfaceVal); ok {
				parts = append(parts, fmt.Sprintf("%v(%s)", iv.T, valStr(iv.V)))
			} else {
				parts = append(parts, refStr(a.R))
			}
		}
		return strings.Join(parts, "|")
	}
	return valStr(v)
}

func (e *Engine) goroutineDone(c *Config) {
	c.gor.doneG = Or(c.gor.doneG, c.g)
}

func (e *Engine) doReturn(c *Config, res Value) {
	f := c.top()
	c.stack = c.stack[:len(c.stack)-1]
	if len(c.stack) == 0 {
		return
	}
	p := c.top()
	if f.deferred {
		// parent is running its defers (RunDefers instr in normal mode, or unwinding)
		return
	}
	ins := p.blk.Instrs[p.idx]
	if call, ok := ins.(*ssa.Call); ok {
		if res != nil {
			p.regs[call] = res
		}
		p.idx++
		return
	}
	inconclusive("return to non-call instruction %v", ins)
}

// feasible asks the solver whether guard g can hold (unknown counts as feasible). Used to prune
// panic edges and branches that are infeasible but not syntactically false.
func (e *Engine) feasible(g *Term) bool {
	if g.IsFalse() {
		return false
	}
	if g.IsTrue() {
		return true
	}
	if e.feasMemo == nil {
		e.feasMemo = map[int]bool{}
	}
	if v, ok := e.feasMemo[g.id]; ok {
		return v
	}
	if e.feas == nil || e.feas.dead {
		sv, err := NewSolver("z3-new", "")
		if err != nil {
			return true
		}
		sv.useTac = true
		e.feas = sv
	}
	r := e.feas.Check([]*Term{g}, 3000, false)
	e.feasN++
	e.feasMs += r.Dur.Milliseconds()
	res := r.Status != "unsat"
	if !res {
		e.feasCut++
	}
	e.feasMemo[g.id] = res
	if e.trace || r.Dur.Milliseconds() > 300 {
		fmt.Fprintf(os.Stderr, "FEAS %s %dms (n=%d)\n", r.Status, r.Dur.Milliseconds(), e.feasN)
	}
	return res
}

// feasibleWith: solver feasibility of a guard together with the global constraints (unknown = feasible).
func (e *Engine) feasibleWith(g *Term) bool {
	if g.IsFalse() {
		return false
	}
	if e.feas == nil || e.feas.dead {
		sv, err := NewSolver("z3-new", "")
		if err != nil {
			return true
		}
		sv.useTac = true
		e.feas = sv
	}
	as := append(append([]*Term{}, e.constraints...), g)
	r := e.feas.Check(as, 4000, false)
	e.feasN++
	e.feasMs += r.Dur.Milliseconds()
	if r.Status == "unsat" {
		e.feasCut++
		return false
	}
	return true
}

// feasibleBatch decides the feasibility of several guards (each together with the scheduling
// constraints) on a pool of solver processes in parallel. unknown/timeout/error = feasible (kept).
func (e *Engine) feasibleBatch(gs []*Term) []bool {
	res := make([]bool, len(gs))
	for i := range res {
		res[i] = true
	}
	k := e.feasPar
	if k <= 0 {
		k = 8
	}
	if k > len(gs) {
		k = len(gs)
	}
	for len(e.feasPool) < k {
		e.feasPool = append(e.feasPool, nil)
	}
	for i := 0; i < k; i++ {
		if e.feasPool[i] == nil || e.feasPool[i].dead {
			lp := ""
			if i == 0 {
				lp = os.Getenv("VERIF_FEASLOG")
			}
			var sv *Solver
			var err error
			if len(TS.ufs) == 0 {
				sv, err = NewIncrSolver(lp)
			} else {
				sv, err = NewSolver("z3-new", lp)
				if sv != nil {
					sv.useTac = true
				}
			}
			if err != nil {
				return res
			}
			e.feasPool[i] = sv
		}
	}
	var next int32
	var mu sync.Mutex
	var wg sync.WaitGroup
	start := time.Now()
	for w := 0; w < k; w++ {
		wg.Add(1)
		go func(sv *Solver) {
			defer wg.Done()
			for {
				i := int(atomic.AddInt32(&next, 1)) - 1
				if i >= len(gs) || sv.dead {
					return
				}
				if gs[i].IsFalse() {
					res[i] = false
					continue
				}
				as := append(append([]*Term{}, e.constraints...), gs[i])
				r := sv.Check(as, e.feasTimeout, false)
				mu.Lock()
				e.feasN++
				if r.Status == "unsat" {
					e.feasCut++
					res[i] = false
				} else if r.Status != "sat" {
					e.feasUnk++
				}
				mu.Unlock()
			}
		}(e.feasPool[w])
	}
	wg.Wait()
	e.feasMs += time.Since(start).Milliseconds()
	return res
}
