package main

// Term layer: hash-consed DAG of SMT terms over Bool and fixed-width bit-vectors (width <= 64),
// with constant folding and light simplification. Printed as SMT-LIB2 with one define-fun per
// shared node so the DAG stays a DAG.

import (
	"fmt"
	"sort"
	"strings"
)

type Op uint8

const (
	OpConst Op = iota // Bool (w=0) or BV const
	OpVar
	OpNot
	OpAnd
	OpOr
	OpIte
	OpEq
	OpAdd
	OpSub
	OpMul
	OpBvAnd
	OpBvOr
	OpBvXor
	OpShl
	OpLshr
	OpAshr
	OpUlt
	OpUle
	OpSlt
	OpSle
	OpNeg
	OpBvNot
	OpExtract // aux = hi<<8|lo
	OpZext    // w = new width
	OpSext
	OpConcat
	OpUdiv
	OpUrem
	OpSdiv
	OpSrem
	OpUF // uninterpreted function application: name, args
)

var opNames = map[Op]string{
	OpNot: "not", OpAnd: "and", OpOr: "or", OpIte: "ite", OpEq: "=", OpAdd: "bvadd", OpSub: "bvsub",
	OpMul: "bvmul", OpBvAnd: "bvand", OpBvOr: "bvor", OpBvXor: "bvxor", OpShl: "bvshl", OpLshr: "bvlshr",
	OpAshr: "bvashr", OpUlt: "bvult", OpUle: "bvule", OpSlt: "bvslt", OpSle: "bvsle", OpNeg: "bvneg",
	OpBvNot: "bvnot", OpConcat: "concat", OpUdiv: "bvudiv", OpUrem: "bvurem", OpSdiv: "bvsdiv", OpSrem: "bvsrem",
}

type Term struct {
	op   Op
	w    int // 0 = Bool, else BV width
	val  uint64
	name string
	aux  int
	args []*Term
	id   int
}

type TermStore struct {
	tab   map[string]*Term
	next  int
	vars  []*Term
	ufs   map[string]string // name -> declaration
	ufOrd []string
	True  *Term
	False *Term
}

var TS *TermStore

func NewTermStore() *TermStore {
	ts := &TermStore{tab: map[string]*Term{}, ufs: map[string]string{}}
	ts.True = ts.mk(&Term{op: OpConst, w: 0, val: 1})
	ts.False = ts.mk(&Term{op: OpConst, w: 0, val: 0})
	return ts
}

func (ts *TermStore) mk(t *Term) *Term {
	var sb strings.Builder
	fmt.Fprintf(&sb, "%d:%d:%d:%s:%d", t.op, t.w, t.val, t.name, t.aux)
	for _, a := range t.args {
		fmt.Fprintf(&sb, ",%d", a.id)
	}
	k := sb.String()
	if e, ok := ts.tab[k]; ok {
		return e
	}
	t.id = ts.next
	ts.next++
	ts.tab[k] = t
	if t.op == OpVar {
		ts.vars = append(ts.vars, t)
	}
	return t
}

func mask(w int) uint64 {
	if w >= 64 {
		return ^uint64(0)
	}
	return (uint64(1) << uint(w)) - 1
}

func signExt(v uint64, w int) int64 {
	if w >= 64 {
		return int64(v)
	}
	if v&(uint64(1)<<uint(w-1)) != 0 {
		return int64(v | ^mask(w))
	}
	return int64(v)
}

func (t *Term) IsConst() bool { return t.op == OpConst }
func (t *Term) IsTrue() bool  { return t.op == OpConst && t.w == 0 && t.val == 1 }
func (t *Term) IsFalse() bool { return t.op == OpConst && t.w == 0 && t.val == 0 }

func BV(v uint64, w int) *Term {
	if w <= 0 || w > 64 {
		panic(fmt.Sprintf("BV: bad width %d", w))
	}
	return TS.mk(&Term{op: OpConst, w: w, val: v & mask(w)})
}
func BoolT(b bool) *Term {
	if b {
		return TS.True
	}
	return TS.False
}
func Var(name string, w int) *Term { return TS.mk(&Term{op: OpVar, w: w, name: name}) }

func Not(a *Term) *Term {
	if a.w != 0 {
		panic("Not on non-bool")
	}
	if a.IsConst() {
		return BoolT(a.val == 0)
	}
	if a.op == OpNot {
		return a.args[0]
	}
	return TS.mk(&Term{op: OpNot, args: []*Term{a}})
}

func And(xs ...*Term) *Term {
	var out []*Term
	seen := map[int]bool{}
	for _, x := range xs {
		if x.w != 0 {
			panic("And on non-bool")
		}
		if x.IsFalse() {
			return TS.False
		}
		if x.IsTrue() {
			continue
		}
		if x.op == OpAnd {
			for _, y := range x.args {
				if !seen[y.id] {
					seen[y.id] = true
					out = append(out, y)
				}
			}
			continue
		}
		if !seen[x.id] {
			seen[x.id] = true
			out = append(out, x)
		}
	}
	// eq(x, c1) and eq(x, c2) with different constants contradict (scheduler variables!)
	var eqConst map[int]uint64
	for _, x := range out {
		if x.op == OpEq && x.args[0].w != 0 {
			var v, k *Term
			if x.args[1].IsConst() {
				v, k = x.args[0], x.args[1]
			} else if x.args[0].IsConst() {
				v, k = x.args[1], x.args[0]
			}
			if v != nil {
				if eqConst == nil {
					eqConst = map[int]uint64{}
				}
				if old, ok := eqConst[v.id]; ok && old != k.val {
					return TS.False
				}
				eqConst[v.id] = k.val
			}
		}
	}
	changed := false
	for i, x := range out {
		if x.op == OpNot && seen[x.args[0].id] {
			return TS.False
		}
		if eqConst != nil && x.op == OpNot && x.args[0].op == OpEq && x.args[0].args[0].w != 0 {
			// not(eq(x, c2)) is redundant next to eq(x, c1), c1 != c2
			y := x.args[0]
			var v, k *Term
			if y.args[1].IsConst() {
				v, k = y.args[0], y.args[1]
			} else if y.args[0].IsConst() {
				v, k = y.args[1], y.args[0]
			}
			if v != nil {
				if c1, ok := eqConst[v.id]; ok && c1 != k.val {
					out[i] = TS.True
					changed = true
					continue
				}
			}
		}
		// not(and(ys)) where some y contradicts an eq(x, c) conjunct: the inner and is false, drop
		if eqConst != nil && x.op == OpNot && x.args[0].op == OpAnd {
			dead := false
			for _, y := range x.args[0].args {
				if y.op == OpEq && y.args[0].w != 0 {
					var v, k *Term
					if y.args[1].IsConst() {
						v, k = y.args[0], y.args[1]
					} else if y.args[0].IsConst() {
						v, k = y.args[1], y.args[0]
					}
					if v != nil {
						if c1, ok := eqConst[v.id]; ok && c1 != k.val {
							dead = true
							break
						}
					}
				}
				if y.op == OpNot && seen[y.args[0].id] {
					dead = true
					break
				}
			}
			if dead {
				out[i] = TS.True
				changed = true
				continue
			}
		}
		// not(and(ys)) with every y among the conjuncts: contradiction
		if x.op == OpNot && x.args[0].op == OpAnd {
			all := true
			for _, y := range x.args[0].args {
				if !seen[y.id] {
					all = false
					break
				}
			}
			if all {
				return TS.False
			}
		}
		// or(zs): absorbed if some z is a conjunct; unit resolution if not(z) is a conjunct
		if x.op == OpOr && len(out) <= 48 && len(x.args) <= 12 {
			absorbed := false
			var keep []*Term
			for _, z := range x.args {
				if seen[z.id] {
					absorbed = true
					break
				}
				if z.op == OpNot && seen[z.args[0].id] {
					continue
				}
				if z.op == OpNot && z.args[0].op == OpAnd {
					all := true
					for _, y := range z.args[0].args {
						if !seen[y.id] {
							all = false
							break
						}
					}
					if all {
						continue
					}
				}
				keep = append(keep, z)
			}
			if absorbed {
				out[i] = TS.True
				changed = true
			} else if len(keep) != len(x.args) {
				out[i] = Or(keep...)
				changed = true
			}
		}
	}
	if changed {
		return And(out...)
	}
	if len(out) == 0 {
		return TS.True
	}
	if len(out) == 1 {
		return out[0]
	}
	sort.Slice(out, func(i, j int) bool { return out[i].id < out[j].id })
	return TS.mk(&Term{op: OpAnd, args: out})
}

func Or(xs ...*Term) *Term {
	var out []*Term
	seen := map[int]bool{}
	for _, x := range xs {
		if x.w != 0 {
			panic("Or on non-bool")
		}
		if x.IsTrue() {
			return TS.True
		}
		if x.IsFalse() {
			continue
		}
		if x.op == OpOr {
			for _, y := range x.args {
				if !seen[y.id] {
					seen[y.id] = true
					out = append(out, y)
				}
			}
			continue
		}
		if !seen[x.id] {
			seen[x.id] = true
			out = append(out, x)
		}
	}
	for _, x := range out {
		if x.op == OpNot && seen[x.args[0].id] {
			return TS.True
		}
	}
	if len(out) == 0 {
		return TS.False
	}
	if len(out) == 1 {
		return out[0]
	}
	// factor common conjuncts: or(and(A,X), and(A,Y)) = and(A, or(X,Y))
	if orFactor && len(out) <= 8 {
		conj := func(t *Term) []*Term {
			if t.op == OpAnd {
				return t.args
			}
			return []*Term{t}
		}
		common := map[int]*Term{}
		for _, y := range conj(out[0]) {
			common[y.id] = y
		}
		for _, x := range out[1:] {
			if len(common) == 0 {
				break
			}
			here := map[int]bool{}
			for _, y := range conj(x) {
				here[y.id] = true
			}
			for id := range common {
				if !here[id] {
					delete(common, id)
				}
			}
		}
		if len(common) > 0 {
			var cs []*Term
			for _, y := range common {
				cs = append(cs, y)
			}
			var rest []*Term
			for _, x := range out {
				var keep []*Term
				for _, y := range conj(x) {
					if _, ok := common[y.id]; !ok {
						keep = append(keep, y)
					}
				}
				rest = append(rest, And(keep...))
			}
			return And(append(cs, Or(rest...))...)
		}
	}
	sort.Slice(out, func(i, j int) bool { return out[i].id < out[j].id })
	return TS.mk(&Term{op: OpOr, args: out})
}

func Implies(a, b *Term) *Term { return Or(Not(a), b) }

func Ite(c, a, b *Term) *Term {
	if c.w != 0 {
		panic("Ite cond non-bool")
	}
	if a.w != b.w {
		panic(fmt.Sprintf("Ite width mismatch %d %d", a.w, b.w))
	}
	if c.IsTrue() {
		return a
	}
	if c.IsFalse() {
		return b
	}
	if a == b {
		return a
	}
	if a.w == 0 {
		if a.IsTrue() && b.IsFalse() {
			return c
		}
		if a.IsFalse() && b.IsTrue() {
			return Not(c)
		}
		if a.IsTrue() {
			return Or(c, b)
		}
		if a.IsFalse() {
			return And(Not(c), b)
		}
		if b.IsTrue() {
			return Or(Not(c), a)
		}
		if b.IsFalse() {
			return And(c, a)
		}
	}
	// ite(c, x, ite(c, y, z)) = ite(c, x, z)
	if b.op == OpIte && b.args[0] == c {
		return Ite(c, a, b.args[2])
	}
	if a.op == OpIte && a.args[0] == c {
		return Ite(c, a.args[1], b)
	}
	if c.op == OpNot {
		return Ite(c.args[0], b, a)
	}
	return TS.mk(&Term{op: OpIte, w: a.w, args: []*Term{c, a, b}})
}

func Eq(a, b *Term) *Term {
	if a.w != b.w {
		panic(fmt.Sprintf("Eq width mismatch %d %d", a.w, b.w))
	}
	if a == b {
		return TS.True
	}
	if a.IsConst() && b.IsConst() {
		return BoolT(a.val == b.val)
	}
	if a.w != 0 && (a.IsConst() || b.IsConst()) {
		if alo, ahi, ok := interval(a); ok {
			if blo, bhi, ok := interval(b); ok && (ahi < blo || bhi < alo) {
				return TS.False
			}
		}
	}
	if a.w == 0 {
		if a.IsTrue() {
			return b
		}
		if b.IsTrue() {
			return a
		}
		if a.IsFalse() {
			return Not(b)
		}
		if b.IsFalse() {
			return Not(a)
		}
	}
	// eq(ite(c, k1, k2), k) with constants: push down
	if b.IsConst() && a.op == OpIte && (a.args[1].IsConst() || a.args[2].IsConst()) {
		return Ite(a.args[0], Eq(a.args[1], b), Eq(a.args[2], b))
	}
	if a.IsConst() && b.op == OpIte && (b.args[1].IsConst() || b.args[2].IsConst()) {
		return Ite(b.args[0], Eq(b.args[1], a), Eq(b.args[2], a))
	}
	if a.id > b.id {
		a, b = b, a
	}
	return TS.mk(&Term{op: OpEq, args: []*Term{a, b}})
}

func binBV(op Op, a, b *Term) *Term {
	if a.w != b.w || a.w == 0 {
		panic(fmt.Sprintf("binBV %v width mismatch %d %d", opNames[op], a.w, b.w))
	}
	w := a.w
	if a.IsConst() && b.IsConst() {
		x, y := a.val, b.val
		switch op {
		case OpAdd:
			return BV(x+y, w)
		case OpSub:
			return BV(x-y, w)
		case OpMul:
			return BV(x*y, w)
		case OpBvAnd:
			return BV(x&y, w)
		case OpBvOr:
			return BV(x|y, w)
		case OpBvXor:
			return BV(x^y, w)
		case OpShl:
			if y >= uint64(w) {
				return BV(0, w)
			}
			return BV(x<<y, w)
		case OpLshr:
			if y >= uint64(w) {
				return BV(0, w)
			}
			return BV(x>>y, w)
		case OpAshr:
			sx := signExt(x, w)
			if y >= uint64(w) {
				if sx < 0 {
					return BV(^uint64(0), w)
				}
				return BV(0, w)
			}
			return BV(uint64(sx>>y), w)
		case OpUdiv:
			if y == 0 {
				return BV(^uint64(0), w)
			}
			return BV(x/y, w)
		case OpUrem:
			if y == 0 {
				return BV(x, w)
			}
			return BV(x%y, w)
		case OpSdiv:
			sx, sy := signExt(x, w), signExt(y, w)
			if sy == 0 {
				if sx < 0 {
					return BV(1, w)
				}
				return BV(^uint64(0), w)
			}
			if sy == -1 {
				return BV(uint64(-sx), w)
			}
			return BV(uint64(sx/sy), w)
		case OpSrem:
			sx, sy := signExt(x, w), signExt(y, w)
			if sy == 0 {
				return BV(x, w)
			}
			if sy == -1 {
				return BV(0, w)
			}
			return BV(uint64(sx%sy), w)
		}
	}
	switch op {
	case OpAdd:
		if a.IsConst() && a.val == 0 {
			return b
		}
		if b.IsConst() && b.val == 0 {
			return a
		}
		// (x + c1) + c2
		if b.IsConst() && a.op == OpAdd && a.args[1].IsConst() {
			return binBV(OpAdd, a.args[0], BV(a.args[1].val+b.val, w))
		}
		if a.IsConst() {
			a, b = b, a
		}
	case OpSub:
		if b.IsConst() && b.val == 0 {
			return a
		}
		if a == b {
			return BV(0, w)
		}
		if b.IsConst() {
			return binBV(OpAdd, a, BV(-b.val, w))
		}
	case OpMul:
		if a.IsConst() {
			a, b = b, a
		}
		if b.IsConst() && b.val == 0 {
			return BV(0, w)
		}
		if b.IsConst() && b.val == 1 {
			return a
		}
	case OpBvAnd:
		if a.IsConst() {
			a, b = b, a
		}
		if b.IsConst() && b.val == 0 {
			return BV(0, w)
		}
		if b.IsConst() && b.val == mask(w) {
			return a
		}
		if a == b {
			return a
		}
	case OpBvOr:
		if a.IsConst() {
			a, b = b, a
		}
		if b.IsConst() && b.val == 0 {
			return a
		}
		if a == b {
			return a
		}
	case OpBvXor:
		if a.IsConst() {
			a, b = b, a
		}
		if b.IsConst() && b.val == 0 {
			return a
		}
		if a == b {
			return BV(0, w)
		}
	case OpShl, OpLshr, OpAshr:
		if b.IsConst() && b.val == 0 {
			return a
		}
		if b.IsConst() && b.val >= uint64(w) && op != OpAshr {
			return BV(0, w)
		}
	}
	// distribute over ite with constant branches (keeps scheduler-only terms small)
	if b.IsConst() && a.op == OpIte && a.args[1].IsConst() && a.args[2].IsConst() {
		return Ite(a.args[0], binBV(op, a.args[1], b), binBV(op, a.args[2], b))
	}
	if a.IsConst() && b.op == OpIte && b.args[1].IsConst() && b.args[2].IsConst() {
		return Ite(b.args[0], binBV(op, a, b.args[1]), binBV(op, a, b.args[2]))
	}
	return TS.mk(&Term{op: op, w: w, args: []*Term{a, b}})
}

func Add(a, b *Term) *Term   { return binBV(OpAdd, a, b) }
func Sub(a, b *Term) *Term   { return binBV(OpSub, a, b) }
func Mul(a, b *Term) *Term   { return binBV(OpMul, a, b) }
func BvAnd(a, b *Term) *Term { return binBV(OpBvAnd, a, b) }
func BvOr(a, b *Term) *Term  { return binBV(OpBvOr, a, b) }
func BvXor(a, b *Term) *Term { return binBV(OpBvXor, a, b) }
func Shl(a, b *Term) *Term   { return binBV(OpShl, a, b) }
func Lshr(a, b *Term) *Term  { return binBV(OpLshr, a, b) }
func Ashr(a, b *Term) *Term  { return binBV(OpAshr, a, b) }

func cmpBV(op Op, a, b *Term) *Term {
	if a.w != b.w || a.w == 0 {
		panic(fmt.Sprintf("cmpBV width mismatch %d %d", a.w, b.w))
	}
	if a.IsConst() && b.IsConst() {
		switch op {
		case OpUlt:
			return BoolT(a.val < b.val)
		case OpUle:
			return BoolT(a.val <= b.val)
		case OpSlt:
			return BoolT(signExt(a.val, a.w) < signExt(b.val, b.w))
		case OpSle:
			return BoolT(signExt(a.val, a.w) <= signExt(b.val, b.w))
		}
	}
	if a == b {
		return BoolT(op == OpUle || op == OpSle)
	}
	// interval reasoning for small counter-like terms (ite / +const over constants)
	if alo, ahi, ok := interval(a); ok {
		if blo, bhi, ok := interval(b); ok {
			nonneg := alo >= 0 && blo >= 0
			if op == OpSlt || (op == OpUlt && nonneg) {
				if ahi < blo {
					return TS.True
				}
				if alo >= bhi {
					return TS.False
				}
			}
			if op == OpSle || (op == OpUle && nonneg) {
				if ahi <= blo {
					return TS.True
				}
				if alo > bhi {
					return TS.False
				}
			}
		}
	}
	if b.IsConst() && a.op == OpIte && (a.args[1].IsConst() || a.args[2].IsConst()) {
		return Ite(a.args[0], cmpBV(op, a.args[1], b), cmpBV(op, a.args[2], b))
	}
	if a.IsConst() && b.op == OpIte && (b.args[1].IsConst() || b.args[2].IsConst()) {
		return Ite(b.args[0], cmpBV(op, a, b.args[1]), cmpBV(op, a, b.args[2]))
	}
	return TS.mk(&Term{op: op, args: []*Term{a, b}})
}

func Ult(a, b *Term) *Term { return cmpBV(OpUlt, a, b) }
func Ule(a, b *Term) *Term { return cmpBV(OpUle, a, b) }
func Slt(a, b *Term) *Term { return cmpBV(OpSlt, a, b) }
func Sle(a, b *Term) *Term { return cmpBV(OpSle, a, b) }

func Neg(a *Term) *Term {
	if a.IsConst() {
		return BV(-a.val, a.w)
	}
	return TS.mk(&Term{op: OpNeg, w: a.w, args: []*Term{a}})
}
func BvNot(a *Term) *Term {
	if a.IsConst() {
		return BV(^a.val, a.w)
	}
	return TS.mk(&Term{op: OpBvNot, w: a.w, args: []*Term{a}})
}

func Extract(a *Term, hi, lo int) *Term {
	w := hi - lo + 1
	if lo == 0 && w == a.w {
		return a
	}
	if a.IsConst() {
		return BV(a.val>>uint(lo), w)
	}
	if a.op == OpIte && a.args[1].IsConst() && a.args[2].IsConst() {
		return Ite(a.args[0], Extract(a.args[1], hi, lo), Extract(a.args[2], hi, lo))
	}
	if (a.op == OpZext || a.op == OpSext) && lo == 0 && w <= a.args[0].w {
		return Extract(a.args[0], hi, lo)
	}
	return TS.mk(&Term{op: OpExtract, w: w, aux: hi<<8 | lo, args: []*Term{a}})
}

func Zext(a *Term, w int) *Term {
	if w == a.w {
		return a
	}
	if w < a.w {
		return Extract(a, w-1, 0)
	}
	if a.IsConst() {
		return BV(a.val, w)
	}
	if a.op == OpIte && a.args[1].IsConst() && a.args[2].IsConst() {
		return Ite(a.args[0], Zext(a.args[1], w), Zext(a.args[2], w))
	}
	return TS.mk(&Term{op: OpZext, w: w, args: []*Term{a}})
}

func Sext(a *Term, w int) *Term {
	if w == a.w {
		return a
	}
	if w < a.w {
		return Extract(a, w-1, 0)
	}
	if a.IsConst() {
		return BV(uint64(signExt(a.val, a.w)), w)
	}
	if a.op == OpIte && a.args[1].IsConst() && a.args[2].IsConst() {
		return Ite(a.args[0], Sext(a.args[1], w), Sext(a.args[2], w))
	}
	return TS.mk(&Term{op: OpSext, w: w, args: []*Term{a}})
}

// UF applies an uninterpreted function; all args and the result are BV64 (or Bool result if w==0).
func UF(name string, w int, args ...*Term) *Term {
	if _, ok := TS.ufs[name]; !ok {
		var sb strings.Builder
		fmt.Fprintf(&sb, "(declare-fun %s (", name)
		for _, a := range args {
			sb.WriteString(sortOf(a.w) + " ")
		}
		fmt.Fprintf(&sb, ") %s)", sortOf(w))
		TS.ufs[name] = sb.String()
		TS.ufOrd = append(TS.ufOrd, name)
	}
	return TS.mk(&Term{op: OpUF, w: w, name: name, args: args})
}

func sortOf(w int) string {
	if w == 0 {
		return "Bool"
	}
	return fmt.Sprintf("(_ BitVec %d)", w)
}

// ---------- printing ----------

func constStr(t *Term) string {
	if t.w == 0 {
		if t.val != 0 {
			return "true"
		}
		return "false"
	}
	if t.w%4 == 0 {
		return fmt.Sprintf("#x%0*x", t.w/4, t.val)
	}
	return fmt.Sprintf("#b%0*b", t.w, t.val)
}

func smtName(s string) string {
	ok := true
	for _, c := range s {
		if !(c >= 'a' && c <= 'z' || c >= 'A' && c <= 'Z' || c >= '0' && c <= '9' || c == '_' || c == '.' || c == '!' || c == '$') {
			ok = false
		}
	}
	if ok {
		return s
	}
	return "|" + strings.ReplaceAll(s, "|", "!") + "|"
}

// Printer emits declarations/definitions incrementally to a solver session.
type Printer struct {
	emitted map[int]bool
	declVar map[int]bool
	declUF  map[string]bool
}

func NewPrinter() *Printer {
	return &Printer{emitted: map[int]bool{}, declVar: map[int]bool{}, declUF: map[string]bool{}}
}

func (p *Printer) ref(t *Term) string {
	switch t.op {
	case OpConst:
		return constStr(t)
	case OpVar:
		return smtName(t.name)
	}
	return fmt.Sprintf("t%d", t.id)
}

// Emit writes the definitions needed for the roots that were not yet emitted.
func (p *Printer) Emit(sb *strings.Builder, roots ...*Term) {
	// iterative post-order
	type fr struct {
		t *Term
		i int
	}
	for _, r := range roots {
		if p.emitted[r.id] {
			continue
		}
		st := []fr{{r, 0}}
		for len(st) > 0 {
			f := &st[len(st)-1]
			t := f.t
			if p.emitted[t.id] {
				st = st[:len(st)-1]
				continue
			}
			if f.i < len(t.args) {
				a := t.args[f.i]
				f.i++
				if !p.emitted[a.id] {
					st = append(st, fr{a, 0})
				}
				continue
			}
			st = st[:len(st)-1]
			p.emitted[t.id] = true
			switch t.op {
			case OpConst:
			case OpVar:
				if !p.declVar[t.id] {
					p.declVar[t.id] = true
					fmt.Fprintf(sb, "(declare-const %s %s)\n", smtName(t.name), sortOf(t.w))
				}
			default:
				if t.op == OpUF && !p.declUF[t.name] {
					p.declUF[t.name] = true
					sb.WriteString(TS.ufs[t.name] + "\n")
				}
				fmt.Fprintf(sb, "(define-fun t%d () %s ", t.id, sortOf(t.w))
				p.expr(sb, t)
				sb.WriteString(")\n")
			}
		}
	}
}

func (p *Printer) expr(sb *strings.Builder, t *Term) {
	switch t.op {
	case OpExtract:
		fmt.Fprintf(sb, "((_ extract %d %d) %s)", t.aux>>8, t.aux&0xff, p.ref(t.args[0]))
	case OpZext:
		fmt.Fprintf(sb, "((_ zero_extend %d) %s)", t.w-t.args[0].w, p.ref(t.args[0]))
	case OpSext:
		fmt.Fprintf(sb, "((_ sign_extend %d) %s)", t.w-t.args[0].w, p.ref(t.args[0]))
	case OpUF:
		if len(t.args) == 0 {
			sb.WriteString(smtName(t.name))
			return
		}
		fmt.Fprintf(sb, "(%s", smtName(t.name))
		for _, a := range t.args {
			sb.WriteString(" " + p.ref(a))
		}
		sb.WriteString(")")
	default:
		fmt.Fprintf(sb, "(%s", opNames[t.op])
		for _, a := range t.args {
			sb.WriteString(" " + p.ref(a))
		}
		sb.WriteString(")")
	}
}

// Eval evaluates a term under a model (var name -> value); unknown vars are 0. UFs unsupported (return 0).
func Eval(t *Term, model map[string]uint64, memo map[int]uint64) uint64 {
	if v, ok := memo[t.id]; ok {
		return v
	}
	var r uint64
	a := func(i int) uint64 { return Eval(t.args[i], model, memo) }
	b2u := func(b bool) uint64 {
		if b {
			return 1
		}
		return 0
	}
	switch t.op {
	case OpConst:
		r = t.val
	case OpVar:
		r = model[t.name] & maskOr1(t.w)
	case OpNot:
		r = 1 - a(0)
	case OpAnd:
		r = 1
		for i := range t.args {
			if a(i) == 0 {
				r = 0
				break
			}
		}
	case OpOr:
		r = 0
		for i := range t.args {
			if a(i) != 0 {
				r = 1
				break
			}
		}
	case OpIte:
		if a(0) != 0 {
			r = a(1)
		} else {
			r = a(2)
		}
	case OpEq:
		r = b2u(a(0) == a(1))
	case OpUlt:
		r = b2u(a(0) < a(1))
	case OpUle:
		r = b2u(a(0) <= a(1))
	case OpSlt:
		r = b2u(signExt(a(0), t.args[0].w) < signExt(a(1), t.args[0].w))
	case OpSle:
		r = b2u(signExt(a(0), t.args[0].w) <= signExt(a(1), t.args[0].w))
	case OpNeg:
		r = (-a(0)) & mask(t.w)
	case OpBvNot:
		r = (^a(0)) & mask(t.w)
	case OpExtract:
		r = (a(0) >> uint(t.aux&0xff)) & mask(t.w)
	case OpZext:
		r = a(0)
	case OpSext:
		r = uint64(signExt(a(0), t.args[0].w)) & mask(t.w)
	case OpConcat:
		r = (a(0)<<uint(t.args[1].w) | a(1)) & mask(t.w)
	case OpUF:
		r = 0
	default:
		x := binBV(t.op, BV(a(0), t.w), BV(a(1), t.w))
		r = x.val
	}
	memo[t.id] = r
	return r
}

func maskOr1(w int) uint64 {
	if w == 0 {
		return 1
	}
	return mask(w)
}

func (t *Term) String() string {
	var sb strings.Builder
	t.str(&sb, 0)
	return sb.String()
}

func (t *Term) str(sb *strings.Builder, d int) {
	switch t.op {
	case OpConst:
		if t.w == 0 {
			sb.WriteString(constStr(t))
		} else {
			fmt.Fprintf(sb, "%d", signExt(t.val, t.w))
		}
	case OpVar:
		sb.WriteString(t.name)
	default:
		if d > 6 {
			sb.WriteString("…")
			return
		}
		n := opNames[t.op]
		if t.op == OpUF {
			n = t.name
		} else if n == "" {
			n = fmt.Sprintf("op%d", t.op)
		}
		sb.WriteString("(" + n)
		for _, a := range t.args {
			sb.WriteString(" ")
			a.str(sb, d+1)
		}
		sb.WriteString(")")
	}
}

var orFactor = false

// interval computes a signed interval for terms built from constants, ite and +/- constants
// (memoised; unknown for anything else). Values are interpreted as signed numbers of the term's width
// and the analysis gives up on anything that could wrap.
type ivl struct {
	lo, hi int64
	ok     bool
}

var ivlMemo = map[int]ivl{}

func interval(t *Term) (int64, int64, bool) {
	if t.w == 0 {
		return 0, 0, false
	}
	if v, ok := ivlMemo[t.id]; ok {
		return v.lo, v.hi, v.ok
	}
	r := interval1(t)
	ivlMemo[t.id] = r
	return r.lo, r.hi, r.ok
}

// varBounds: known ranges of solver variables (e.g. clock increments), consulted by the interval analysis.
var varBounds = map[string][2]int64{}

func interval1(t *Term) ivl {
	const lim = int64(1) << 40
	switch t.op {
	case OpVar:
		if b, ok := varBounds[t.name]; ok {
			return ivl{b[0], b[1], true}
		}
		return ivl{}
	case OpConst:
		v := signExt(t.val, t.w)
		if v > lim || v < -lim {
			return ivl{}
		}
		return ivl{v, v, true}
	case OpIte:
		al, ah, ok1 := interval(t.args[1])
		bl, bh, ok2 := interval(t.args[2])
		if !ok1 || !ok2 {
			return ivl{}
		}
		if bl < al {
			al = bl
		}
		if bh > ah {
			ah = bh
		}
		return ivl{al, ah, true}
	case OpAdd:
		al, ah, ok1 := interval(t.args[0])
		bl, bh, ok2 := interval(t.args[1])
		if !ok1 || !ok2 {
			return ivl{}
		}
		lo, hi := al+bl, ah+bh
		if t.w < 63 {
			max := int64(1)<<uint(t.w-1) - 1
			if hi > max || lo < -max-1 {
				return ivl{}
			}
		}
		return ivl{lo, hi, true}
	case OpZext:
		al, ah, ok := interval(t.args[0])
		if !ok || al < 0 {
			return ivl{}
		}
		return ivl{al, ah, true}
	case OpSext:
		al, ah, ok := interval(t.args[0])
		if !ok {
			return ivl{}
		}
		return ivl{al, ah, true}
	}
	return ivl{}
}
