package main

import (
	"fmt"
	"go/types"
	"os"
	"strings"

	"golang.org/x/tools/go/ssa"
)

// CallSite abstracts a call being executed by the top frame: an *ssa.Call instruction, or a pending
// deferred call.
type CallSite struct {
	Common   *ssa.CallCommon
	FnVal    Value // evaluated function value / interface receiver (nil for static/builtin)
	Args     []Value
	Call     *ssa.Call // nil for deferred calls
	Deferred *DeferRec
}

type CallCtx struct {
	e    *Engine
	c    *Config
	f    *Frame
	site *CallSite
	args []Value
	rest func(c *Config)
}

// finish completes a model/builtin call with result v and moves on.
func (cc *CallCtx) finish(v Value) {
	f := cc.c.top()
	if cc.site.Call != nil {
		if v != nil {
			f.regs[cc.site.Call] = v
		}
		f.idx++
	} else {
		f.pending = nil
	}
}

type Model struct {
	Visible bool
	Enabled func(cc *CallCtx, phase int) *Term
	// Exec runs one phase. Returns (result, done). When done is false the op has a further phase.
	Exec func(cc *CallCtx, phase int) (Value, bool)
	// Plain is used for invisible models: returns the result (cc.c may be narrowed / forked by raise).
	Plain func(cc *CallCtx) Value
	// Takeover models manage control flow themselves (push frames etc.); they return whether c continues.
	Takeover func(cc *CallCtx) bool
	// TakeoverEnabled: enabling condition when a Takeover model rests as a visible op (default: true)
	TakeoverEnabled func(cc *CallCtx, phase int) *Term
}

var models = map[string]*Model{}

func (e *Engine) currentSite(c *Config, f *Frame) *CallSite {
	if f.pending != nil {
		d := f.pending
		return &CallSite{Common: d.Common, FnVal: d.Fn, Args: d.Args, Deferred: d}
	}
	call := f.blk.Instrs[f.idx].(*ssa.Call)
	cm := call.Common()
	s := &CallSite{Common: cm, Call: call}
	for _, a := range cm.Args {
		s.Args = append(s.Args, e.get(f, a))
	}
	return s
}

func (e *Engine) execCall(c *Config, f *Frame, x *ssa.Call, rest func(c *Config)) bool {
	return e.dispatch(c, f, rest)
}

func (e *Engine) invokeDeferred(c *Config, d *DeferRec) {
	f := c.top()
	f.pending = d
	e.enqueue(c)
}

// allowedExternal lists std functions whose real bodies are interpreted.
var allowedExternal = map[string]bool{
	"errors.New":                             true,
	"(*errors.errorString).Error":            true,
	"(*context.deadlineExceededError).Error": false,
}

func (e *Engine) isInterpretable(fn *ssa.Function) bool {
	if fn.Blocks == nil {
		return false
	}
	if strings.HasPrefix(fn.Synthetic, "bound method wrapper") || strings.HasPrefix(fn.Synthetic, "wrapper for") || strings.HasPrefix(fn.Synthetic, "thunk for") {
		return true
	}
	if allowedExternal[fn.String()] {
		return true
	}
	p := fn.Pkg
	if p == nil {
		// synthetic wrappers / instantiations: decide by origin
		if o := fn.Origin(); o != nil && o.Pkg != nil {
			p = o.Pkg
		} else if fn.Object() != nil && fn.Object().Pkg() != nil {
			return fn.Object().Pkg().Path() == e.pkg.Pkg.Path()
		} else {
			// bound method wrappers and thunks have no package; allow (their bodies just call the method)
			return true
		}
	}
	return p == e.pkg
}

// dispatch resolves and executes the call at the top frame's current site.
func (e *Engine) dispatch(c *Config, f *Frame, rest func(c *Config)) bool {
	var site *CallSite
	cm := e.siteCommon(f)
	// concretize the callee before building the site
	if cm.IsInvoke() || !isStaticCallee(cm) {
		if f.pending != nil {
			r := pruneRefUnder(f.pending.Fn.(*RefV), c.g)
			if len(r.Alts) != 1 {
				if len(r.Alts) == 0 {
					c.g = TS.False
					return false
				}
				for _, a := range r.Alts {
					n := c.clone()
					n.g = And(c.g, a.G)
					nd := *f.pending
					nd.Fn = &RefV{Alts: []RefAlt{{TS.True, a.R}}}
					n.top().pending = &nd
					n.top().opTag += refIdent(a.R) + ";"

					n.top().opTagBlk, n.top().opTagIdx = n.top().blk.Index, n.top().idx
					e.enqueue(n)
				}
				c.g = TS.False
				return false
			}
			nd := *f.pending
			nd.Fn = r
			f.pending = &nd
		} else {
			if _, single := e.concretizeReg(c, f, cm.Value); !single {
				return false
			}
		}
	}
	site = e.currentSite(c, f)
	if site.Call != nil && (cm.IsInvoke() || !isStaticCallee(cm)) {
		site.FnVal = pruneRefUnder(e.get(f, cm.Value).(*RefV), c.g)
	}
	cc := &CallCtx{e: e, c: c, f: f, site: site, args: site.Args, rest: rest}

	if cm.IsInvoke() {
		recv := site.FnVal.(*RefV).Alts[0].R
		iv, ok := recv.(*IfaceVal)
		if !ok {
			e.raise(c, TS.True, "nil interface method call")
			return false
		}
		name := cm.Method.Name()
		// the receiver inside the interface must be unique as well
		if inner, ok := iv.V.(*RefV); ok {
			ip := pruneRefUnder(inner, c.g)
			if len(ip.Alts) == 0 {
				c.g = TS.False
				return false
			}
			if len(ip.Alts) > 1 {
				for _, a := range ip.Alts {
					n := c.clone()
					n.g = And(c.g, a.G)
					one := refTo(&IfaceVal{T: iv.T, V: &RefV{Alts: []RefAlt{{TS.True, a.R}}}})
					nf := n.top()
					tag := refIdent(a.R) + ";"
					if nf.pending != nil {
						nd := *nf.pending
						nd.Fn = one
						nf.pending = &nd
					} else if fv, isFV := cm.Value.(*ssa.FreeVar); isFV {
						nb := append([]Value(nil), nf.bindings...)
						for i, x := range nf.fn.FreeVars {
							if x == fv {
								nb[i] = one
							}
						}
						nf.bindings = nb
					} else {
						nf.regs[cm.Value] = one
					}
					nf.opTag += tag
					nf.opTagBlk, nf.opTagIdx = nf.blk.Index, nf.idx
					e.enqueue(n)
				}
				c.g = TS.False
				return false
			}
			if len(ip.Alts) != len(inner.Alts) {
				iv = &IfaceVal{T: iv.T, V: ip}
			}
		}
		if m := e.modelForMethod(iv.T, name); m != nil {
			cc.args = append([]Value{iv.V}, site.Args...)
			return e.runModel(cc, m, typeMethodName(iv.T, name))
		}
		fn := e.prog.LookupMethod(iv.T, cm.Method.Pkg(), name)
		if fn == nil {
			inconclusive("method %s not found on %v", name, iv.T)
		}
		return e.callFunction(cc, fn, append([]Value{iv.V}, site.Args...), nil)
	}
	switch v := cm.Value.(type) {
	case *ssa.Builtin:
		return e.builtin(cc, v)
	case *ssa.Function:
		return e.callFunction(cc, v, site.Args, nil)
	}
	fr := site.FnVal.(*RefV).Alts[0].R
	fv, ok := fr.(*FuncVal)
	if !ok {
		e.raise(c, TS.True, "call of nil function")
		return false
	}
	if fv.Model != "" {
		m := models[fv.Model]
		if m == nil {
			inconclusive("no model %q", fv.Model)
		}
		cc.args = append(append([]Value{}, fv.Data...), site.Args...)
		return e.runModel(cc, m, fv.Model)
	}
	return e.callFunction(cc, fv.Fn, site.Args, fv.Bindings)
}

func (e *Engine) siteCommon(f *Frame) *ssa.CallCommon {
	if f.pending != nil {
		return f.pending.Common
	}
	return f.blk.Instrs[f.idx].(*ssa.Call).Common()
}

func isStaticCallee(cm *ssa.CallCommon) bool {
	switch cm.Value.(type) {
	case *ssa.Builtin, *ssa.Function:
		return true
	}
	return false
}

func typeMethodName(t types.Type, m string) string {
	return "(" + types.TypeString(t, nil) + ")." + m
}

func (e *Engine) callFunction(cc *CallCtx, fn *ssa.Function, args []Value, bindings []Value) bool {
	name := fn.String()
	if strings.HasPrefix(fn.Name(), "verif") && fn.Blocks == nil {
		return e.intrinsic(cc, fn.Name())
	}
	if m, ok := models[name]; ok {
		cc.args = args
		return e.runModel(cc, m, name)
	}
	if o := fn.Origin(); o != nil {
		if m, ok := models[o.String()]; ok {
			cc.args = args
			return e.runModel(cc, m, o.String())
		}
	}
	if !e.isInterpretable(fn) {
		if fn.Name() == "init" {
			cc.finish(nil)
			return true
		}
		inconclusive("call to unmodelled external function %s at %s", name, e.posOf(cc.c))
	}
	e.pushFrame(cc.c, fn, args, bindings)
	return true
}

func (e *Engine) pushFrame(c *Config, fn *ssa.Function, args []Value, bindings []Value) *Frame {
	if len(fn.Blocks) == 0 {
		inconclusive("function without body: %s", fn)
	}
	if len(c.stack) > 64 {
		inconclusive("call stack too deep (recursion?) at %s", fn)
	}
	if _, ok := e.funcsSeen[fn.String()]; !ok {
		e.funcsSeen[fn.String()] = len(fn.Blocks)
	}
	nf := &Frame{fn: fn, blk: fn.Blocks[0], regs: make(map[ssa.Value]Value, 16), bindings: bindings}
	if len(args) != len(fn.Params) {
		inconclusive("arity mismatch calling %s: %d args for %d params", fn, len(args), len(fn.Params))
	}
	for i, p := range fn.Params {
		nf.regs[p] = args[i]
	}
	parent := (*Frame)(nil)
	if len(c.stack) > 0 {
		parent = c.top()
	}
	if parent != nil && parent.pending != nil {
		nf.deferred = true
		parent.pending = nil
	}
	c.stack = append(c.stack, nf)
	return nf
}

func (e *Engine) runModel(cc *CallCtx, m *Model, name string) bool {
	c := cc.c
	// environment hook (verifBefore): run the registered function inline once before this model call
	if hk, ok := e.beforeHooks[name]; ok && cc.site.Call != nil && c.inHook == 0 {
		f := cc.f
		if !(f.hookBlk == f.blk.Index && f.hookIdx == f.idx+1) {
			f.hookBlk, f.hookIdx = f.blk.Index, f.idx+1
			c.inHook++
			e.callValue(c, hk, nil, func(e *Engine, c2 *Config, _ Value) { c2.inHook-- }, func(e *Engine, c2 *Config) { c2.inHook-- })
			return !c.g.IsFalse()
		}
		f.hookIdx = 0
	}
	// method models need a unique receiver: fork on the receiver argument if necessary
	if strings.HasPrefix(name, "(*") && len(cc.args) > 0 && cc.site.Call != nil && !cc.site.Common.IsInvoke() {
		if rv, ok := cc.args[0].(*RefV); ok && (len(rv.Alts) != 1 || !rv.Alts[0].G.IsTrue()) && len(cc.site.Common.Args) > 0 {
			if _, isFn := cc.site.Common.Value.(*ssa.Function); isFn {
				one, single := e.concretizeReg(c, cc.f, cc.site.Common.Args[0])
				if !single {
					return false
				}
				cc.args[0] = one
			}
		}
	}
	e.stubsSeen[name]++
	if m.Takeover != nil {
		return m.Takeover(cc)
	}
	if !m.Visible {
		v := m.Plain(cc)
		if c.g.IsFalse() {
			return false
		}
		cc.finish(v)
		return true
	}
	return e.visibleOp(cc.c, cc.rest,
		func(ph int) *Term { return m.Enabled(cc, ph) },
		func(ph int) bool {
			v, done := m.Exec(cc, ph)
			if done {
				cc.finish(v)
			}
			return done
		})
}

// visibleOp implements the resting / firing protocol for a visible operation.
func (e *Engine) visibleOp(c *Config, rest func(c *Config), enabled func(ph int) *Term, exec func(ph int) bool) bool {
	if e.mode == "sched" && c.atomic == 0 {
		if !c.fuel {
			rest(c)
			return false
		}
		c.fuel = false
		if exec(c.phase) {
			c.phase = 0
			return !c.g.IsFalse()
		}
		c.phase++
		rest(c)
		return false
	}
	// sequential mode: run phases inline; a disabled phase blocks the path
	for {
		en := enabled(c.phase)
		if !en.IsTrue() {
			bg := And(c.g, Not(en))
			if !bg.IsFalse() {
				e.blocked = Or(e.blocked, bg)
				e.blockedAt[e.posOf(c)] = true
			}
			c.g = And(c.g, en)
			if c.g.IsFalse() {
				return false
			}
		}
		if exec(c.phase) {
			c.phase = 0
			return !c.g.IsFalse()
		}
		c.phase++
	}
}

// opEnabled computes the enabling condition of the visible op a resting config is positioned at.
func (e *Engine) opEnabled(c *Config) *Term {
	if c.done || len(c.stack) == 0 {
		return TS.False
	}
	f := c.top()
	od := e.describeOp(c, f)
	if od == nil {
		inconclusive("resting config not at a visible op: %s", e.posOf(c))
	}
	return od(c.phase)
}

// describeOp returns the enabled-function of the visible op at the top of c.
func (e *Engine) describeOp(c *Config, f *Frame) func(ph int) *Term {
	if f.pending == nil && f.mode == modeNormal {
		switch x := f.blk.Instrs[f.idx].(type) {
		case *ssa.UnOp:
			return func(ph int) *Term { return e.recvEnabled(c, f, x) }
		case *ssa.Send:
			return func(ph int) *Term { return e.sendEnabled(c, f, x, ph) }
		case *ssa.Select:
			return func(ph int) *Term { return e.selectEnabled(c, f, x) }
		case *ssa.Call:
		default:
			return nil
		}
	}
	cm := e.siteCommon(f)
	site := e.currentSite(c, f)
	cc := &CallCtx{e: e, c: c, f: f, site: site, args: site.Args}
	if cm.IsInvoke() {
		var recvV Value
		if f.pending != nil {
			recvV = f.pending.Fn
		} else {
			recvV = e.get(f, cm.Value)
		}
		r := pruneRefUnder(recvV.(*RefV), c.g)
		iv, ok := r.Alts[0].R.(*IfaceVal)
		if !ok {
			return func(int) *Term { return TS.True }
		}
		m := e.modelForMethod(iv.T, cm.Method.Name())
		if m == nil {
			return nil
		}
		cc.args = append([]Value{iv.V}, site.Args...)
		return modelEnabledFn(m, cc)
	}
	switch v := cm.Value.(type) {
	case *ssa.Builtin:
		if v.Name() == "close" {
			return func(int) *Term { return TS.True }
		}
		return nil
	case *ssa.Function:
		if v.Blocks == nil && strings.HasPrefix(v.Name(), "verif") {
			if v.Name() == "verifAwaitAfterFunc" {
				id := site.Args[0].(*Term)
				reg := e.afters[id.val]
				return func(int) *Term { e.foot.read(reg.Obj, c.g); return Eq(termOf(reg.State), BV(1, 8)) }
			}
			return func(int) *Term { return TS.True }
		}
		m := models[v.String()]
		if m == nil {
			if o := v.Origin(); o != nil {
				m = models[o.String()]
			}
		}
		if m == nil {
			return nil
		}
		return modelEnabledFn(m, cc)
	}
	var fvV Value
	if f.pending != nil {
		fvV = f.pending.Fn
	} else {
		fvV = e.get(f, cm.Value)
	}
	r := pruneRefUnder(fvV.(*RefV), c.g)
	fv, ok := r.Alts[0].R.(*FuncVal)
	if !ok || fv.Model == "" {
		return nil
	}
	m := models[fv.Model]
	if m == nil {
		return nil
	}
	cc.args = append(append([]Value{}, fv.Data...), site.Args...)
	return modelEnabledFn(m, cc)
}

func modelEnabledFn(m *Model, cc *CallCtx) func(ph int) *Term {
	if m.Visible {
		return func(ph int) *Term { return m.Enabled(cc, ph) }
	}
	if m.Takeover != nil {
		if m.TakeoverEnabled != nil {
			return func(ph int) *Term { return m.TakeoverEnabled(cc, ph) }
		}
		return func(int) *Term { return TS.True }
	}
	return nil
}

// ---------------- go statements ----------------

func (e *Engine) execGo(c *Config, f *Frame, x *ssa.Go) bool {
	cm := x.Common()
	var fn *ssa.Function
	var args, bindings []Value
	for _, a := range cm.Args {
		args = append(args, e.get(f, a))
	}
	if cm.IsInvoke() {
		inconclusive("go with interface method unsupported")
	}
	switch v := cm.Value.(type) {
	case *ssa.Function:
		fn = v
	case *ssa.Builtin:
		inconclusive("go builtin unsupported")
	default:
		r, single := e.concretizeReg(c, f, cm.Value)
		if !single {
			return false
		}
		fv, ok := r.Alts[0].R.(*FuncVal)
		if !ok {
			e.raise(c, TS.True, "go of nil func value")
			return false
		}
		if fv.Model != "" {
			if len(args) != 0 {
				inconclusive("go with a modelled function taking arguments")
			}
			helper := e.pkg.Func("verifCall0")
			if helper == nil {
				inconclusive("harness support function verifCall0 missing")
			}
			e.spawn(c, helper, []Value{r}, nil)
			return true
		}
		fn, bindings = fv.Fn, fv.Bindings
	}
	g := e.spawn(c, fn, args, bindings)
	if g.site == "" && c.gor != nil {
		if p := e.prog.Fset.Position(x.Pos()); p.IsValid() {
			site := fmt.Sprintf("%s:%d", shortFile(p.Filename), p.Line)
			occ := 0
			for _, o := range e.gors {
				if o != g && o.site == site && o.parent == c.gor.idx {
					occ++
				}
			}
			g.parent, g.site, g.occ = c.gor.idx, site, occ
		}
	}
	return true
}

func (e *Engine) spawn(c *Config, fn *ssa.Function, args, bindings []Value) *Gor {
	name := e.dynName(c, "go:"+fn.Name())
	g := e.gorBy[name]
	if g == nil {
		g = &Gor{idx: len(e.gors), name: name, rest: map[string]*Config{}, doneG: TS.False, fnName: fn.String()}
		for _, p := range e.daemonPats {
			if daemonMatch(g.fnName, p) {
				g.daemon = true
			}
		}
		e.gors = append(e.gors, g)
		e.gorBy[name] = g
	}
	e.foot.write(e.gorObj(g), c.g)
	nc := &Config{g: c.g, gor: g}
	e.pushFrame(nc, fn, args, bindings)
	if e.mode == "sched" {
		// run the child's invisible prefix now (under the spawner's guard)
		e.enqueue(nc)
	} else {
		// sequential mode: spawned goroutines are recorded but never run
		k := e.mergeKey(nc)
		if o, ok := g.rest[k]; ok {
			e.mergeInto(o, nc)
		} else {
			g.rest[k] = nc
			g.order = append(g.order, k)
		}
	}
	return g
}

var gorObjs = map[*Gor]*Object{}

func (e *Engine) gorObj(g *Gor) *Object {
	if o, ok := gorObjs[g]; ok {
		return o
	}
	o := newObject("goroutine:" + g.name)
	gorObjs[g] = o
	return o
}

// ---------------- builtins ----------------

func (e *Engine) builtin(cc *CallCtx, b *ssa.Builtin) bool {
	c := cc.c
	args := cc.args
	switch b.Name() {
	case "len":
		switch x := args[0].(type) {
		case *SliceV:
			cc.finish(x.Len)
		case *StrV:
			if !x.Known {
				inconclusive("len of unknown string")
			}
			cc.finish(BV(uint64(len(x.S)), 64))
		case *RefV:
			if len(x.Alts) > 0 {
				switch x.Alts[len(x.Alts)-1].R.(type) {
				case *MapObj:
					cc.finish(e.mapLen(c, x))
					return true
				case *ChanObj:
					cc.finish(e.chanLen(c, x))
					return true
				case NilRef:
					if len(x.Alts) == 1 {
						cc.finish(BV(0, 64))
						return true
					}
					// mixed nil / map
					for _, a := range x.Alts {
						if _, ok := a.R.(*MapObj); ok {
							cc.finish(e.mapLen(c, x))
							return true
						}
						if _, ok := a.R.(*ChanObj); ok {
							cc.finish(e.chanLen(c, x))
							return true
						}
					}
				}
			}
			inconclusive("len of %s", valStr(x))
		case *StructV:
			cc.finish(BV(uint64(len(x.F)), 64))
		default:
			inconclusive("len of %T", x)
		}
	case "cap":
		switch x := args[0].(type) {
		case *SliceV:
			cc.finish(x.Cap)
		case *RefV:
			n := BV(0, 64)
			for _, a := range x.Alts {
				if ch, ok := a.R.(*ChanObj); ok {
					n = Ite(a.G, BV(uint64(ch.Cap), 64), n)
				}
			}
			cc.finish(n)
		default:
			inconclusive("cap of %T", x)
		}
	case "append":
		cc.finish(e.appendOp(c, cc, args[0].(*SliceV), args[1]))
	case "copy":
		cc.finish(e.copyOp(c, args[0].(*SliceV), args[1]))
	case "delete":
		e.mapDelete(c, args[0].(*RefV), args[1])
		cc.finish(nil)
	case "close":
		return e.visibleOp(c, cc.rest, func(int) *Term { return TS.True }, func(int) bool {
			e.chanClose(c, args[0].(*RefV))
			cc.finish(nil)
			return true
		})
	case "panic":
		e.raiseVal(c, args[0])
	case "recover":
		cc.finish(e.recoverOp(c))
	case "print", "println":
		cc.finish(nil)
	case "min", "max":
		x, y := args[0].(*Term), args[1].(*Term)
		sg := isSigned(cc.site.Common.Args[0].Type())
		var lt *Term
		if sg {
			lt = Slt(x, y)
		} else {
			lt = Ult(x, y)
		}
		if b.Name() == "min" {
			cc.finish(Ite(lt, x, y))
		} else {
			cc.finish(Ite(lt, y, x))
		}
	default:
		inconclusive("unsupported builtin %s", b.Name())
	}
	return !c.g.IsFalse()
}

func (e *Engine) recoverOp(c *Config) Value {
	n := len(c.stack)
	f := c.top()
	if f.deferred && n >= 2 {
		p := c.stack[n-2]
		if p.mode == modeUnwinding {
			v := p.panicVal
			p.mode = modeRecovered
			return v
		}
	}
	return nilRef()
}

func (e *Engine) appendOp(c *Config, cc *CallCtx, s *SliceV, more Value) Value {
	m, ok := more.(*SliceV)
	if !ok {
		if _, isStr := more.(*StrV); isStr {
			inconclusive("append(string) unsupported")
		}
		inconclusive("append with %T", more)
	}
	// number of appended elements must be bounded: use the backing bound of m
	mMax := e.sliceMaxLen(m)
	if nilOnly(m.Base) {
		return s
	}
	elemT := cc.site.Common.Args[0].Type().Underlying().(*types.Slice).Elem()
	newLen := Add(s.Len, m.Len)
	fits := Ule(newLen, s.Cap)
	sMax := e.sliceMaxLen(s)
	// read the elements to append first
	var vals []Value
	for i := 0; i < mMax; i++ {
		p := e.elemRef(c, m.Base, Add(m.Off, BV(uint64(i), 64)))
		if len(p.Alts) == 0 {
			vals = append(vals, zeroValue(elemT))
			continue
		}
		v := e.loadNoPanic(c, p)
		vals = append(vals, v)
	}
	var result Value
	// in-place part
	inPlace := And(c.g, fits, Not(isNilTerm(s.Base)))
	if !inPlace.IsFalse() && !nilOnly(s.Base) {
		// footprint: one (over-approximate) write per backing array instead of one per element
		for _, a := range s.Base.Alts {
			if arr, ok := a.R.(*Cell); ok {
				e.foot.write(arr.Obj, And(inPlace, a.G))
			}
		}
		for i := 0; i < mMax; i++ {
			gi := And(inPlace, Ult(BV(uint64(i), 64), m.Len))
			if gi.IsFalse() {
				continue
			}
			p := e.elemRef(c, s.Base, Add(s.Off, Add(s.Len, BV(uint64(i), 64))))
			if i == 0 && os.Getenv("VERIF_DBG_APPEND") != "" {
				lo, hi, ok := interval(s.Len)
				fmt.Fprintf(os.Stderr, "append in-place: len=%s ivl=%d..%d %v alts=%d mMax=%d\n", s.Len, lo, hi, ok, len(p.Alts), mMax)
			}
			for _, a := range p.Alts {
				cell := a.R.(*Cell)
				g := And(gi, a.G)
				storeCell(cell, vals[i], g)
			}
		}
		result = &SliceV{Base: s.Base, Off: s.Off, Len: newLen, Cap: s.Cap}
	}
	grow := And(c.g, Not(And(fits, Not(isNilTerm(s.Base)))))
	if os.Getenv("VERIF_DBG_APPEND") != "" {
		cl, ok := e.feasibleLeaves(c, s.Len, 32)
		fmt.Fprintf(os.Stderr, "bdd: %+v\n", bddStats)
		fmt.Fprintf(os.Stderr, "append: step=%d baseAlts=%d sMax=%d mMax=%d lens=%v %v growFalse=%v inPlaceFalse=%v terms=%d\n", e.step, len(s.Base.Alts), sMax, mMax, cl, ok, grow.IsFalse(), inPlace.IsFalse(), TS.next)
	}
	if !grow.IsFalse() {
		// new backing array: concrete capacity = bound on old len + bound on appended, doubled once
		if ub, ok := upperBound(s.Len); ok && ub < sMax {
			sMax = ub
		}
		if lens, ok := e.feasibleLeaves(c, s.Len, 32); ok && len(lens) > 0 && int(lens[len(lens)-1]) < sMax {
			sMax = int(lens[len(lens)-1])
		}
		n := sMax + mMax
		if n == 0 {
			n = 1
		}
		arr := e.allocArray(c, elemT, n, "append")
		for i := 0; i < sMax; i++ {
			gi := And(grow, Ult(BV(uint64(i), 64), s.Len))
			if gi.IsFalse() {
				continue
			}
			p := e.elemRef(c, s.Base, Add(s.Off, BV(uint64(i), 64)))
			if len(p.Alts) == 0 {
				continue
			}
			storeCell(arr.Kids[i], e.loadNoPanic(c, p), gi)
		}
		for i := 0; i < mMax; i++ {
			gi := And(grow, Ult(BV(uint64(i), 64), m.Len))
			if gi.IsFalse() {
				continue
			}
			k := Add(s.Len, BV(uint64(i), 64))
			if k.IsConst() {
				storeCell(arr.Kids[k.val], vals[i], gi)
				continue
			}
			if lens, ok := e.feasibleLeaves(c, k, 32); ok {
				for _, j := range lens {
					if j < uint64(n) {
						storeCell(arr.Kids[j], vals[i], And(gi, Eq(k, BV(j, 64))))
					}
				}
				continue
			}
			for j := i; j < n && j <= sMax+i; j++ {
				storeCell(arr.Kids[j], vals[i], And(gi, Eq(k, BV(uint64(j), 64))))
			}
		}
		grown := &SliceV{Base: refTo(arr), Off: BV(0, 64), Len: newLen, Cap: BV(uint64(n), 64)}
		if result == nil {
			result = grown
		} else {
			result = iteValue(And(fits, Not(isNilTerm(s.Base))), result, grown)
		}
	}
	if result == nil {
		return s
	}
	return result
}

func nilOnly(r *RefV) bool {
	for _, a := range r.Alts {
		if _, ok := a.R.(NilRef); !ok {
			return false
		}
	}
	return true
}

// loadNoPanic loads through a reference known to be in bounds.
func (e *Engine) loadNoPanic(c *Config, p *RefV) Value {
	var res Value
	for i := len(p.Alts) - 1; i >= 0; i-- {
		a := p.Alts[i]
		cell, ok := a.R.(*Cell)
		if !ok {
			continue
		}
		e.foot.read(cell.Obj, And(c.g, a.G))
		v := loadCell(cell)
		if res == nil {
			res = v
		} else {
			res = iteValue(a.G, v, res)
		}
	}
	return res
}

func (e *Engine) copyOp(c *Config, dst *SliceV, srcV Value) Value {
	src, ok := srcV.(*SliceV)
	if !ok {
		inconclusive("copy from %T", srcV)
	}
	n := Ite(Ult(dst.Len, src.Len), dst.Len, src.Len)
	dMax, sMax := e.sliceMaxLen(dst), e.sliceMaxLen(src)
	mx := dMax
	if sMax < mx {
		mx = sMax
	}
	// copy semantics: as if via a temporary (memmove)
	var vals []Value
	for i := 0; i < mx; i++ {
		p := e.elemRef(c, src.Base, Add(src.Off, BV(uint64(i), 64)))
		if len(p.Alts) == 0 {
			vals = append(vals, nil)
			continue
		}
		vals = append(vals, e.loadNoPanic(c, p))
	}
	for i := 0; i < mx; i++ {
		if vals[i] == nil {
			continue
		}
		gi := And(c.g, Ult(BV(uint64(i), 64), n))
		if gi.IsFalse() {
			continue
		}
		p := e.elemRef(c, dst.Base, Add(dst.Off, BV(uint64(i), 64)))
		for _, a := range p.Alts {
			cell := a.R.(*Cell)
			g := And(gi, a.G)
			e.checkCellGuard(c, cell, true, a.G)
			e.foot.write(cell.Obj, g)
			storeCell(cell, vals[i], g)
		}
	}
	return n
}

// ---------------- intrinsics ----------------

func constName(v Value) string {
	s, ok := v.(*StrV)
	if !ok || !s.Known {
		inconclusive("intrinsic name must be a constant string")
	}
	return s.S
}

func (e *Engine) nondet(name string, w int) *Term {
	if t, ok := e.nondets[name]; ok {
		if t.w != w {
			inconclusive("nondet %s used at two widths", name)
		}
		return t
	}
	t := Var("nd_"+name, w)
	e.nondets[name] = t
	e.nondetOrd = append(e.nondetOrd, name)
	return t
}

func (e *Engine) intrinsic(cc *CallCtx, name string) bool {
	c := cc.c
	a := cc.args
	switch name {
	case "verifNondetInt":
		cc.finish(e.nondet(constName(a[0]), 64))
	case "verifNondetIntN":
		i, ok := a[1].(*Term)
		if !ok || !i.IsConst() {
			inconclusive("verifNondetIntN index must be concrete at %s", e.posOf(c))
		}
		cc.finish(e.nondet(fmt.Sprintf("%s_%d", constName(a[0]), i.val), 64))
	case "verifNondetBool":
		cc.finish(e.nondet(constName(a[0]), 0))
	case "verifNondetBoolN":
		i, ok := a[1].(*Term)
		if !ok || !i.IsConst() {
			inconclusive("verifNondetBoolN index must be concrete at %s", e.posOf(c))
		}
		cc.finish(e.nondet(fmt.Sprintf("%s_%d", constName(a[0]), i.val), 0))
	case "verifAssume":
		cond := a[0].(*Term)
		e.assumes++
		if e.mode == "sched" {
			e.constraints = append(e.constraints, Implies(c.g, cond))
		}
		c.g = And(c.g, cond)
		cc.finish(nil)
	case "verifAssert":
		cond := a[0].(*Term)
		e.asserts = append(e.asserts, Obl{ID: constName(a[1]), G: c.g, Cond: cond, Pos: e.posOf(c), Step: e.step})
		cc.finish(nil)
	case "verifReach":
		id := constName(a[0])
		if _, ok := e.reaches[id]; !ok {
			e.reaches[id] = TS.False
			e.reachOrd = append(e.reachOrd, id)
		}
		e.reaches[id] = Or(e.reaches[id], c.g)
		cc.finish(nil)
	case "verifUF1":
		cc.finish(UF("uf_"+constName(a[0]), 64, a[1].(*Term)))
	case "verifUF2":
		cc.finish(UF("uf_"+constName(a[0]), 64, a[1].(*Term), a[2].(*Term)))
	case "verifDaemon":
		p := constName(a[0])
		e.daemonPats = append(e.daemonPats, p)
		for _, g := range e.gors {
			if daemonMatch(g.fnName, p) {
				g.daemon = true
			}
		}
		cc.finish(nil)
	case "verifFinally":
		e.finallyFns = append(e.finallyFns, a[0])
		cc.finish(nil)
	case "verifGuards":
		on := a[0].(*Term)
		e.guardsOn = on.IsTrue()
		cc.finish(nil)
	case "verifStep":
		cc.finish(BV(uint64(e.step+1), 64))
	case "verifYield":
		return e.visibleOp(c, cc.rest, func(int) *Term { return TS.True }, func(int) bool { cc.finish(nil); return true })
	case "verifObserve":
		cc.finish(nil)
	case "verifBefore":
		if e.beforeHooks == nil {
			e.beforeHooks = map[string]Value{}
		}
		e.beforeHooks[constName(a[0])] = a[1]
		cc.finish(nil)
	case "verifBoundTryFailures":
		n := a[0].(*Term)
		e.maxTryFails = int(n.val)
		cc.finish(nil)
	case "verifBoundSelectDefaults":
		n := a[0].(*Term)
		e.maxDefaults = int(n.val)
		cc.finish(nil)
	case "verifAtomic":
		// run f inline: visible operations inside do not end the transition
		c.atomic++
		cc.finish(nil)
		e.callValue(c, a[0], nil, func(e *Engine, c2 *Config, _ Value) { c2.atomic-- }, func(e *Engine, c2 *Config) { c2.atomic-- })
		// callValue pushed the frame on top of the (already advanced) caller
		return !c.g.IsFalse()
	case "verifIsBlocked", "verifHeldBy":
		inconclusive("intrinsic %s not implemented", name)
	default:
		if h, ok := extraIntrinsics[name]; ok {
			return h(cc)
		}
		inconclusive("unknown intrinsic %s", name)
	}
	return !c.g.IsFalse()
}

var extraIntrinsics = map[string]func(cc *CallCtx) bool{}

// daemonMatch: "name*" matches goroutines whose entry function contains name; otherwise the entry
// function's full name must end with the pattern.
func daemonMatch(fnName, p string) bool {
	if strings.HasSuffix(p, "*") {
		return strings.Contains(fnName, strings.TrimSuffix(p, "*"))
	}
	return strings.HasSuffix(fnName, p)
}
