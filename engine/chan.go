package main

import (
	"fmt"
	"go/types"

	"golang.org/x/tools/go/ssa"
)

// Channel model.
//  buffered (Cap>0): Buf[0..count) FIFO, Count = number of items.
//  unbuffered: Buf[0] rendezvous slot; Count: 0 empty, 1 deposited (sender parked), 2 taken (ack pending).
//  ctxdone: closed iff context cancelled. timer/ticker: receive is ready while armed (the receive
//  stands for the passage of time); Extra = stopped-or-fired flag.

func (e *Engine) chanOf(c *Config, r *RefV) (*ChanObj, bool) {
	r = pruneRefUnder(r, c.g)
	if len(r.Alts) != 1 {
		inconclusive("channel reference not concretized at %s: %s", e.posOf(c), valStr(r))
	}
	ch, ok := r.Alts[0].R.(*ChanObj)
	return ch, ok
}

func (e *Engine) chanClosed(ch *ChanObj) *Term {
	if ch.Kind == "ctxdone" {
		return e.ctxCancelled(ch.Ctx)
	}
	return ch.Closed.Val.(*Term)
}

func (e *Engine) chanLen(c *Config, r *RefV) *Term {
	n := BV(0, 64)
	for _, a := range r.Alts {
		if ch, ok := a.R.(*ChanObj); ok {
			e.foot.read(ch.Obj, And(c.g, a.G))
			if ch.Cap > 0 {
				n = Ite(a.G, ch.Count.Val.(*Term), n)
			}
		}
	}
	return n
}

func (e *Engine) recvReady(c *Config, ch *ChanObj) *Term {
	e.foot.read(ch.Obj, c.g)
	switch ch.Kind {
	case "ctxdone":
		e.footCtx(ch.Ctx, c.g)
		return e.ctxCancelled(ch.Ctx)
	case "timer":
		return Not(ch.Extra.Val.(*Term))
	case "ticker":
		return Not(ch.Extra.Val.(*Term))
	}
	cnt := ch.Count.Val.(*Term)
	closed := ch.Closed.Val.(*Term)
	if ch.Cap > 0 {
		return Or(Not(Eq(cnt, BV(0, 64))), closed)
	}
	return Or(Eq(cnt, BV(1, 64)), closed)
}

// doRecv performs the receive (which must be ready) and returns (value, ok).
func (e *Engine) doRecv(c *Config, ch *ChanObj) (Value, *Term) {
	g := c.g
	e.foot.write(ch.Obj, g)
	zero := zeroValue(ch.T)
	switch ch.Kind {
	case "ctxdone":
		return zero, TS.False
	case "timer":
		storeCell(ch.Extra, TS.True, g)
		return e.timeNow(c), TS.True
	case "ticker":
		return e.timeNow(c), TS.True
	}
	cnt := ch.Count.Val.(*Term)
	if ch.Cap > 0 {
		has := Not(Eq(cnt, BV(0, 64)))
		v := iteValue(has, loadCell(ch.Buf[0]), zero)
		gh := And(g, has)
		for i := 0; i+1 < ch.Cap; i++ {
			storeCell(ch.Buf[i], loadCell(ch.Buf[i+1]), gh)
		}
		storeCell(ch.Buf[ch.Cap-1], zero, gh)
		storeCell(ch.Count, Sub(cnt, BV(1, 64)), gh)
		return v, has
	}
	has := Eq(cnt, BV(1, 64))
	v := iteValue(has, loadCell(ch.Buf[0]), zero)
	storeCell(ch.Count, BV(2, 64), And(g, has))
	return v, has
}

func (e *Engine) recvEnabled(c *Config, f *Frame, x *ssa.UnOp) *Term {
	ch, ok := e.chanOf(c, e.get(f, x.X).(*RefV))
	if !ok {
		return TS.False // nil channel blocks forever
	}
	return e.recvReady(c, ch)
}

func (e *Engine) execRecv(c *Config, f *Frame, x *ssa.UnOp, rest func(c *Config)) bool {
	if _, single := e.concretizeReg(c, f, x.X); !single {
		return false
	}
	return e.visibleOp(c, rest,
		func(int) *Term { return e.recvEnabled(c, f, x) },
		func(int) bool {
			ch, _ := e.chanOf(c, e.get(f, x.X).(*RefV))
			v, ok := e.doRecv(c, ch)
			if x.CommaOk {
				f.regs[x] = &StructV{F: []Value{v, ok}}
			} else {
				f.regs[x] = v
			}
			f.idx++
			return true
		})
}

func (e *Engine) sendReady(c *Config, ch *ChanObj, phase int) *Term {
	e.foot.read(ch.Obj, c.g)
	cnt := ch.Count.Val.(*Term)
	closed := ch.Closed.Val.(*Term)
	if ch.Cap > 0 {
		return Or(Ult(cnt, BV(uint64(ch.Cap), 64)), closed)
	}
	if phase == 0 {
		return Or(Eq(cnt, BV(0, 64)), closed)
	}
	return Or(Eq(cnt, BV(2, 64)), closed)
}

func (e *Engine) sendEnabled(c *Config, f *Frame, x *ssa.Send, phase int) *Term {
	ch, ok := e.chanOf(c, e.get(f, x.Chan).(*RefV))
	if !ok {
		return TS.False
	}
	return e.sendReady(c, ch, phase)
}

// doSend executes one phase of a send; returns done.
func (e *Engine) doSend(c *Config, ch *ChanObj, v Value, phase int) bool {
	closed := ch.Closed.Val.(*Term)
	e.raise(c, closed, "send on closed channel")
	if c.g.IsFalse() {
		return true
	}
	g := c.g
	e.foot.write(ch.Obj, g)
	cnt := ch.Count.Val.(*Term)
	if ch.Cap > 0 {
		for i := 0; i < ch.Cap; i++ {
			storeCell(ch.Buf[i], v, And(g, Eq(cnt, BV(uint64(i), 64))))
		}
		storeCell(ch.Count, Add(cnt, BV(1, 64)), g)
		return true
	}
	if phase == 0 {
		storeCell(ch.Buf[0], v, g)
		storeCell(ch.Count, BV(1, 64), g)
		return false
	}
	storeCell(ch.Count, BV(0, 64), g)
	return true
}

func (e *Engine) execSend(c *Config, f *Frame, x *ssa.Send, rest func(c *Config)) bool {
	if _, single := e.concretizeReg(c, f, x.Chan); !single {
		return false
	}
	return e.visibleOp(c, rest,
		func(ph int) *Term { return e.sendEnabled(c, f, x, ph) },
		func(ph int) bool {
			ch, _ := e.chanOf(c, e.get(f, x.Chan).(*RefV))
			done := e.doSend(c, ch, e.get(f, x.X), ph)
			if done {
				f.idx++
			}
			return done
		})
}

func (e *Engine) chanClose(c *Config, r *RefV) {
	e.raise(c, isNilTerm(r), "close of nil channel")
	for _, a := range r.Alts {
		ch, ok := a.R.(*ChanObj)
		if !ok {
			continue
		}
		g := And(c.g, a.G)
		if g.IsFalse() {
			continue
		}
		closed := ch.Closed.Val.(*Term)
		e.raise(c, And(a.G, closed), "close of closed channel")
		g = And(c.g, a.G)
		e.foot.write(ch.Obj, g)
		storeCell(ch.Closed, TS.True, g)
	}
}

// ---------------- select ----------------

type selCase struct {
	ch    *ChanObj // nil: nil channel (never ready)
	send  bool
	ready *Term
}

func (e *Engine) selectCases(c *Config, f *Frame, x *ssa.Select) []selCase {
	var cs []selCase
	for _, st := range x.States {
		r := pruneRefUnder(e.get(f, st.Chan).(*RefV), c.g)
		if len(r.Alts) != 1 {
			inconclusive("select on non-concretized channel at %s", e.posOf(c))
		}
		ch, ok := r.Alts[0].R.(*ChanObj)
		sc := selCase{send: st.Dir == types.SendOnly}
		if !ok {
			sc.ready = TS.False
		} else {
			sc.ch = ch
			if sc.send {
				if ch.Cap == 0 {
					inconclusive("select with send on an unbuffered channel is not modelled (%s)", e.posOf(c))
				}
				sc.ready = e.sendReady(c, ch, 0)
			} else {
				sc.ready = e.recvReady(c, ch)
			}
		}
		cs = append(cs, sc)
	}
	return cs
}

func (e *Engine) selectEnabled(c *Config, f *Frame, x *ssa.Select) *Term {
	if !x.Blocking {
		return TS.True
	}
	var rs []*Term
	for _, sc := range e.selectCases(c, f, x) {
		rs = append(rs, sc.ready)
	}
	return Or(rs...)
}

func (e *Engine) choiceVar(c *Config) *Term {
	if e.mode == "sched" {
		return Var(fmt.Sprintf("ch_%d", e.step), 8)
	}
	e.choiceN++
	return Var(fmt.Sprintf("chs_%d", e.choiceN), 8)
}

func (e *Engine) execSelect(c *Config, f *Frame, x *ssa.Select, rest func(c *Config)) bool {
	for _, st := range x.States {
		if _, single := e.concretizeReg(c, f, st.Chan); !single {
			return false
		}
	}
	return e.visibleOp(c, rest,
		func(int) *Term { return e.selectEnabled(c, f, x) },
		func(int) bool {
			cases := e.selectCases(c, f, x)
			n := len(cases)
			// total choice: the case pointed to by the choice variable if ready, else the lowest ready one
			var ch *Term
			nReadyMaybe := 0
			for _, sc := range cases {
				if !sc.ready.IsFalse() {
					nReadyMaybe++
				}
			}
			if nReadyMaybe > 1 {
				ch = e.choiceVar(c)
			}
			sel := make([]*Term, n)
			pointedReady := TS.False
			if ch != nil {
				for i, sc := range cases {
					pointedReady = Or(pointedReady, And(Eq(ch, BV(uint64(i), 8)), sc.ready))
				}
			}
			earlier := TS.False
			for i, sc := range cases {
				byPtr := TS.False
				if ch != nil {
					byPtr = And(Eq(ch, BV(uint64(i), 8)), sc.ready)
				}
				byOrder := And(Not(pointedReady), sc.ready, Not(earlier))
				sel[i] = Or(byPtr, byOrder)
				earlier = Or(earlier, sc.ready)
			}
			anyReady := earlier
			// result tuple: (index int, recvOk bool, recv values...)
			idx := BV(uint64(0xFFFFFFFFFFFFFFFF), 64) // -1 = default
			recvOk := TS.False
			tt := x.Type().(*types.Tuple)
			recvVals := make([]Value, 0)
			for i := 2; i < tt.Len(); i++ {
				recvVals = append(recvVals, zeroValue(tt.At(i).Type()))
			}
			base := c.g
			ri := 0
			for i, sc := range cases {
				st := x.States[i]
				if sel[i].IsFalse() {
					if !sc.send {
						ri++
					}
					continue
				}
				idx = Ite(sel[i], BV(uint64(i), 64), idx)
				c.g = And(base, sel[i])
				if sc.send {
					e.doSend(c, sc.ch, e.get(f, st.Send), 0)
				} else {
					v, ok := e.doRecv(c, sc.ch)
					recvOk = Ite(sel[i], ok, recvOk)
					recvVals[ri] = iteValue(sel[i], v, recvVals[ri])
					ri++
				}
			}
			c.g = base
			if x.Blocking {
				c.g = And(c.g, anyReady)
			} else {
				// ghost: count non-blocking selects that fell through to default (spin bound assumption)
				took := And(c.g, Not(anyReady))
				e.defaultCount = Ite(took, Add(e.defaultCount, BV(1, 8)), e.defaultCount)
			}
			res := &StructV{F: []Value{idx, recvOk}}
			res.F = append(res.F, recvVals...)
			f.regs[x] = res
			f.idx++
			return true
		})
}
