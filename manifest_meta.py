META = {
    "C03": {
        "text": "Bounded symbolic verification: the real DefaultCleaner / FixedBufferCleaner / cleanupLogic / get code is executed symbolically from go/ssa over all 64-bit sizes, offsets and pre-states within the stated shape bounds, and z3 decides each assertion; counterexamples are replayed natively before being reported.",
        "note": "Bounds: <= 6 consumer offsets, buffers <= 4 values, <= 2 consumers; inductive steps rely on the hand-written representation invariant in the harness; environment models trusted.",
    },
}
_T = "Bounded symbolic verification: the real functions are executed symbolically from go/ssa (regenerated from /repo on every run) over all 64-bit values and pre-states within the stated shape bounds%s, and z3 decides every assertion, panic-freedom, unwinding and reachability obligation; counterexamples are replayed natively before being reported."
META["C01"] = {"text": _T % "", "note": "Inductive steps from the hand-written Buffer representation invariant (<= 4 values, <= 2 consumers); the composition argument (critical sections are atomic, each refines one FIFO step) is prose in DESIGN.md; asynchronous Get is covered by C05."}
META["C02"] = {"text": _T % "", "note": "Windows of <= 3 uncommitted reads, buffers <= 4 values; sharing one consumer between goroutines under the symbolic scheduler is outside."}
META["C08"] = {"text": _T % " and, for the race harness, over every schedule of Send || 2 receivers within T=24 scheduler steps", "note": "Interleaving claim is a small-scope claim (3 goroutines); sync/atomic/channel models trusted; 3+ receivers and two racing senders are outside."}
META["C13"] = {"text": _T % "", "note": "reflect stubs (TryRecv, Interface) trusted; pending buffer <= 4, source <= 3 values, histories of 6 operations."}
NOT_APPLICABLE = {}
