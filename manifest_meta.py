META = {
    "C03": {
        "text": "Bounded symbolic verification: the real DefaultCleaner / FixedBufferCleaner / cleanupLogic / get code is executed symbolically from go/ssa over all 64-bit sizes, offsets and pre-states within the stated shape bounds, and z3 decides each assertion; counterexamples are replayed natively before being reported.",
        "note": "Bounds: <= 6 consumer offsets, buffers <= 4 values, <= 2 consumers; inductive steps rely on the hand-written representation invariant in the harness; environment models trusted.",
    },
}
_T = "Bounded symbolic verification: the real functions are executed symbolically from go/ssa (regenerated from /repo on every run) over all 64-bit values and pre-states within the stated shape bounds%s, and z3 decides every assertion, panic-freedom, unwinding and reachability obligation; counterexamples are replayed natively before being reported."
META["C01"] = {"text": _T % "", "note": "Inductive steps from the hand-written Buffer representation invariant (<= 4 values, <= 2 consumers); the composition argument (critical sections are atomic, each refines one FIFO step) is prose in DESIGN.md; asynchronous Get is covered by C05."}
META["C02"] = {"text": _T % "", "note": "Windows of <= 3 uncommitted reads, buffers <= 4 values; sharing one consumer between goroutines under the symbolic scheduler is outside."}
META["C08"] = {"text": _T % " and, for the race harness, over every schedule of Send || 2 receivers within T=24 scheduler steps", "note": "Interleaving claim is a small-scope claim (3 goroutines); sync/atomic/channel models trusted; 3+ receivers and two racing senders are outside."}
META["C13"] = {"text": _T % "", "note": "reflect stubs (TryRecv, Interface) trusted; pending buffer <= 4, source <= 3 values, histories of 6 operations."}
_I = " Interleaving obligations use a step-unrolled symbolic scheduler: the schedule is a vector of solver variables and z3 decides assertion, panic, stuck-state and bound-adequacy queries over every schedule within T steps (partial-order constraint applied)."
META["C05"] = {"text": _T % " and every schedule of the WaitCond harnesses" + _I, "note": "Small scope: waiter + watcher + one signaller + one canceller; sync.Cond/Mutex/context models trusted; time is abstracted (no 'promptly')."}
META["C06"] = {"text": _T % " and every schedule of one sender and one standing subscriber" + _I, "note": "One sender, one subscriber, one message (T=30); global ordering across senders and several subscribers is outside the bound."}
META["C07"] = {"text": _T % " and (thorough) every schedule of a sender racing an unsubscribe" + _I, "note": "Quick tier checks the invariant-check arithmetic for all inputs; the interleaving harness assumes at most 2 failed TryRLock spins; SubscribeContext paths are outside."}
META["C09"] = {"text": _T % " and every schedule of the other-key harness" + _I, "note": "Only key independence is claimed; same-key non-overlap with two racing callers exceeded the encoder's reach (see DESIGN.md)."}
META["C10"] = {"text": _T % " and every schedule of a single call and its runner" + _I, "note": "Single caller; coalescing of several callers exceeded the encoder's reach (see DESIGN.md)."}
META["C12"] = {"text": _T % " and every schedule of the termination harnesses" + _I, "note": "Per-component termination; composition is argued, not checked; the Buffer cleanup goroutine together with consumers is covered only by C04's harness."}
META["C14"] = {"text": _T % " and every schedule of one caller and its worker" + _I, "note": "Worker body from arbitrary states (queue <= 2); concurrency bound with several callers is only covered by the exit/dispatch step, not by an interleaving harness."}
META["C16"] = {"text": _T % " and every schedule of the context-combinator harnesses" + _I, "note": "Hand-written context model (atomic subtree cancellation, AfterFunc as guarded pseudo-goroutine) is the main trusted part."}
META["C17"] = {"text": _T % " and every schedule of two holders with the real wait()/do() goroutines" + _I, "note": "Two holders (T=26); WaitGroup/Mutex/channel models trusted."}
META["C18"] = {"text": _T % "", "note": "math/rand.Int63n is a nondeterministic stub (any r in [0,n)); <= 4 calls per run; multiplication r*rate is compared syntactically, never solved; native replay is not available for harnesses using the rand observation intrinsics."}
META["C20"] = {"text": _T % " and every schedule of producer, receiver and canceller" + _I, "note": "count 2 (quick) / 3 (thorough); fairness assumption: at most 2 failed non-blocking sends; timer/ticker may fire at any moment."}
META["C11"] = {"text": "Bounded symbolic verification of a sufficient lock-set condition: every method of the lock-guarded types is executed symbolically from an arbitrary valid state and z3 decides, for every path, that each access to a guarded field (or the map/array behind it) happens with the guarding lock held in the required mode.", "note": "Guard table (engine/guards.go) is part of the claim; not a happens-before analysis; races through user callbacks or inside the standard library are outside. One genuine finding (ensure() reads Buffer.cleaner unlocked, racing SetCleanerConfig) is listed in known_findings.json.", "technique": "symbolic execution of go/ssa with ghost locksets; z3 decides each lock-discipline obligation"}
NOT_APPLICABLE = {
    "C04": "check under construction: the cleaner-protocol interleaving harness has not yet run clean within the budget",
    "C15": "check under construction: reflect.Select stub not yet built",
    "C19": "behaviour lives in package reflect (MakeFunc/Call/Set/Append), which cannot be encoded within reach; contract stubs not built",
}
