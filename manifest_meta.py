META = {
    "C03": {
        "text": "Bounded symbolic verification: the real DefaultCleaner / FixedBufferCleaner / cleanupLogic / get code is executed symbolically from go/ssa over all 64-bit sizes, offsets and pre-states within the stated shape bounds, and z3 decides each assertion; counterexamples are replayed natively before being reported.",
        "note": "Bounds: <= 6 consumer offsets, buffers <= 4 values, <= 2 consumers; inductive steps rely on the hand-written representation invariant in the harness; environment models trusted.",
    },
}
NOT_APPLICABLE = {}
