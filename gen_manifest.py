#!/usr/bin/env python3
# Regenerates MANIFEST.json from checks.py and manifest_meta.py (claimed properties) + properties.jsonl.
import json, sys, os
sys.path.insert(0, os.path.dirname(os.path.abspath(__file__)))
from checks import CHECKS
from manifest_meta import META, NOT_APPLICABLE
props = [json.loads(l)["id"] for l in open("properties.jsonl")]
checks = []
na = []
for p in props:
    if p in CHECKS and p in META:
        m = META[p]
        c = {
            "property_id": p,
            "quick_cmd": "./check %s --tier quick" % p,
            "thorough_cmd": "./check %s --tier thorough" % p,
            "evidence_file": "/verif/evidence/%s.json" % p,
            "replay_cmd_template": "./check %s --replay {path}" % p,
            "engine": "gosmt",
            "level_claimed": {"category": "other", "text": m["text"], "design_ref": m.get("design_ref", "DESIGN.md section 3 " + p)},
            "level_note": m["note"],
            "technique": m.get("technique", "bounded symbolic execution of go/ssa to SMT (z3), solver verdict per obligation"),
        }
        checks.append(c)
    else:
        na.append({"property_id": p, "reason": NOT_APPLICABLE.get(p, "no check registered yet: obligations for this property have not run clean within the tier budget")})
man = {
    "version": 1,
    "setup_cmd": "cd /verif/engine && GOFLAGS=-mod=mod GOPROXY=off GOSUMDB=off GOTOOLCHAIN=local go build -o /verif/bin/gosmt .",
    "hooks": {
        "guard": "verif",
        "enable": "no source hooks: harnesses and native replay runtime are injected through go/packages and go test overlays generated from /verif/harness and /verif/rt",
        "baseline_off_cmd": "cd /repo && go test -vet=off -count=1 -timeout 25m ./...",
        "source_commits": [],
        "add_only": True,
    },
    "engines": [{"name": "gosmt", "path": "/verif/engine", "serves_properties": [c["property_id"] for c in checks],
                 "kind_free_text": "go/ssa -> SMT-LIB2 bounded symbolic executor with symbolic scheduler; z3 5.1.0 back end"}],
    "checks": checks,
    "not_applicable": na,
    "notes": "See DESIGN.md. Every check regenerates its encoding from /repo's working tree on each run.",
}
json.dump(man, open("MANIFEST.json", "w"), indent=1)
print("claimed:", [c["property_id"] for c in checks])
