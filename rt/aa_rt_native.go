package bigbuff

// Native implementations of the harness intrinsics, used only to replay a solver counterexample
// against the real code (go test -overlay). Values come from the JSON file named by VERIF_REPLAY.

import (
	"context"
	"encoding/json"
	"fmt"
	"os"
	"runtime"
	"strconv"
	"strings"
	"sync"
	"sync/atomic"
	"time"
)

type verifSchedEntry struct {
	Pos   string `json:"pos"`
	Phase int    `json:"phase"`
	Gor   int    `json:"gor"`
	Auto  bool   `json:"auto"`
	Wake  bool   `json:"wake"`
	Sel   bool   `json:"sel"`
	// identity of the goroutine that takes this step (Site "" = none known)
	Parent int    `json:"parent"`
	Site   string `json:"site"`
	Occ    int    `json:"occ"`
}

// Goroutine identities: the engine names a goroutine by (parent, go-statement site, occurrence); the
// instrumented build takes a token in the parent before each go statement and binds it in the child.
var verifIDs struct {
	mu     sync.Mutex
	byGoid map[int64]int
	occ    map[string]int
	toks   []int
}

func verifGoid() int64 {
	var buf [64]byte
	n := runtime.Stack(buf[:], false)
	// "goroutine 123 [running]:"
	var id int64
	for _, ch := range buf[10:n] {
		if ch < '0' || ch > '9' {
			break
		}
		id = id*10 + int64(ch-'0')
	}
	return id
}

// verifBindMain: the goroutine that runs the harness function is the engine's g0.
func verifBindMain() {
	verifIDs.mu.Lock()
	if verifIDs.byGoid == nil {
		verifIDs.byGoid = map[int64]int{}
		verifIDs.occ = map[string]int{}
	}
	verifIDs.byGoid[verifGoid()] = 0
	verifIDs.mu.Unlock()
}

func verifMyID() (int, bool) {
	verifIDs.mu.Lock()
	defer verifIDs.mu.Unlock()
	id, ok := verifIDs.byGoid[verifGoid()]
	return id, ok
}

func verifSpawnToken(site string) int {
	verifLoad()
	me, ok := verifMyID()
	verifIDs.mu.Lock()
	defer verifIDs.mu.Unlock()
	id := -1
	if ok {
		key := strconv.Itoa(me) + "|" + site
		k := verifIDs.occ[key]
		verifIDs.occ[key] = k + 1
		for _, e := range verifCtl.entries {
			if e.Site == site && e.Parent == me && e.Occ == k {
				id = e.Gor
				break
			}
		}
	}
	verifIDs.toks = append(verifIDs.toks, id)
	return len(verifIDs.toks) - 1
}

func verifBindChild(tok int) {
	verifIDs.mu.Lock()
	defer verifIDs.mu.Unlock()
	if tok >= 0 && tok < len(verifIDs.toks) && verifIDs.toks[tok] >= 0 {
		if verifIDs.byGoid == nil {
			verifIDs.byGoid = map[int64]int{}
			verifIDs.occ = map[string]int{}
		}
		verifIDs.byGoid[verifGoid()] = verifIDs.toks[tok]
	}
}

// verifIsMine: may the calling goroutine take schedule entry e? Yes unless both identities are known
// and differ.
func verifIsMine(e verifSchedEntry) bool {
	if e.Site == "" {
		return true
	}
	me, ok := verifMyID()
	return !ok || me == e.Gor
}

// verifWakeLocker wraps the Locker of every sync.Cond created in the instrumented build: when cond.Wait
// re-acquires the lock after a wake-up, the controller lets it proceed only when the schedule reaches the
// corresponding "wake" entry (so a goroutine scheduled to take the lock first really gets it first).
type verifWakeLocker struct{ sync.Locker }

func verifWrapLocker(l sync.Locker) sync.Locker {
	if l == nil {
		return nil
	}
	return verifWakeLocker{l}
}

func (w verifWakeLocker) Lock() {
	var pcs [6]uintptr
	n := runtime.Callers(2, pcs[:])
	frames := runtime.CallersFrames(pcs[:n])
	fromWait := false
	for {
		fr, more := frames.Next()
		if fr.Function == "sync.(*Cond).Wait" {
			fromWait = true
			break
		}
		if !more {
			break
		}
	}
	if fromWait {
		verifWakePoint()
	}
	w.Locker.Lock()
}

func verifWakePoint() {
	c := &verifCtl
	start := time.Now()
	for {
		c.mu.Lock()
		if !c.active || c.cur >= len(c.entries) || atomic.LoadInt32(&verifAtomicDepth) > 0 {
			c.mu.Unlock()
			return
		}
		e := c.entries[c.cur]
		if e.Wake && verifIsMine(e) {
			verifCtlAdvance()
			c.mu.Unlock()
			return
		}
		if e.Auto && time.Since(c.arrived) > verifSettle {
			c.remain[e.Pos]--
			verifCtlAdvance()
			c.mu.Unlock()
			continue
		}
		// no wake entry left in the schedule: this wake-up is beyond it
		left := false
		for _, x := range c.entries[c.cur:] {
			if x.Wake {
				left = true
				break
			}
		}
		if !left || time.Since(start) > verifPatience {
			c.mu.Unlock()
			return
		}
		c.mu.Unlock()
		time.Sleep(200 * time.Microsecond)
	}
}

type verifBlocked struct {
	Gor    int    `json:"gor"`
	Pos    string `json:"pos"`
	Parent int    `json:"parent"`
	Site   string `json:"site"`
	Occ    int    `json:"occ"`
}

type verifReplayFile struct {
	Nondets map[string]string `json:"nondets"`
	Entries []verifSchedEntry `json:"schedule_entries"`
	Blocked []verifBlocked    `json:"blocked"`
	Visible []string          `json:"visible_positions"`
}

// last scheduling point each goroutine passed (for confirming a stuck-state counterexample)
var verifLast struct {
	mu  sync.Mutex
	pos map[int64]string
}

func verifNotePoint(pos string) {
	verifLast.mu.Lock()
	if verifLast.pos == nil {
		verifLast.pos = map[int64]string{}
	}
	verifLast.pos[verifGoid()] = pos
	verifLast.mu.Unlock()
}

// verifCheckStuck: after the schedule has been replayed and the program has settled, every goroutine the
// counterexample leaves blocked must still exist and must have passed, as its last scheduling point,
// the operation the counterexample says it is blocked in.
func verifCheckStuck() {
	if len(verifCtl.blocked) == 0 {
		return
	}
	buf := make([]byte, 1<<20)
	n := runtime.Stack(buf, true)
	alive := map[int64]bool{}
	for _, ln := range strings.Split(string(buf[:n]), "\n") {
		if strings.HasPrefix(ln, "goroutine ") {
			var id int64
			for _, ch := range ln[10:] {
				if ch < '0' || ch > '9' {
					break
				}
				id = id*10 + int64(ch-'0')
			}
			alive[id] = true
		}
	}
	verifIDs.mu.Lock()
	byID := map[int]int64{}
	for goid, id := range verifIDs.byGoid {
		byID[id] = goid
	}
	verifIDs.mu.Unlock()
	verifLast.mu.Lock()
	defer verifLast.mu.Unlock()
	confirmed, unknown := 0, 0
	for _, b := range verifCtl.blocked {
		goid, ok := byID[b.Gor]
		if !ok || (b.Site == "" && b.Gor != 0) {
			unknown++
			continue
		}
		if !alive[goid] {
			fmt.Printf("VERIF-STUCK-NOT-CONFIRMED goroutine g%d has finished\n", b.Gor)
			return
		}
		if verifLast.pos[goid] != b.Pos {
			fmt.Printf("VERIF-STUCK-NOT-CONFIRMED goroutine g%d is at %s, expected %s\n", b.Gor, verifLast.pos[goid], b.Pos)
			return
		}
		confirmed++
	}
	if confirmed > 0 {
		fmt.Printf("VERIF-STUCK-CONFIRMED %d goroutine(s) blocked as predicted (%d without native identity)\n", confirmed, unknown)
	} else {
		fmt.Printf("VERIF-STUCK-NOT-CONFIRMED no blocked goroutine has a native identity\n")
	}
}

// Schedule replay controller: goroutines pass verifPoint(pos) in the order of the solver's schedule.
// A point whose position does not occur in the rest of the schedule is passed at once; an entry that has
// no native point (second phase of cond.Wait / of an unbuffered send, model-only goroutines) is skipped
// after a settle delay; a goroutine that waits too long marks the replay as diverged and everything runs
// freely from then on.
var verifCtl struct {
	mu       sync.Mutex
	entries  []verifSchedEntry
	cur      int
	remain   map[string]int
	active   bool
	diverged bool
	arrived  time.Time
	blocked  []verifBlocked
	visible  map[string]bool
}

const (
	verifSettle  = 15 * time.Millisecond
	verifPatience = 3000 * time.Millisecond
)

func verifCtlAdvance() {
	c := &verifCtl
	c.cur++
	c.arrived = time.Now()
}

func verifPoint(pos string) {
	c := &verifCtl
	verifLoad()
	defer verifNotePoint(pos)
	if os.Getenv("VERIF_TRACE") != "" {
		fmt.Printf("VERIF-POINT %s (cursor %d)\n", pos, c.cur)
	}
	start := time.Now()
	for {
		c.mu.Lock()
		if !c.active || c.cur >= len(c.entries) || atomic.LoadInt32(&verifAtomicDepth) > 0 {
			c.mu.Unlock()
			return
		}
		if c.remain[pos] == 0 {
			// no entry for this position is left. If the engine never treats this position as a scheduling
			// point, or the goroutine is unknown, pass. If it is a scheduling point of a known goroutine that
			// has no entry left, the schedule says this operation happens after everything listed: wait for
			// the schedule to be consumed.
			me, known := verifMyID()
			mine := false
			for _, x := range c.entries[c.cur:] {
				if x.Site != "" && x.Gor == me {
					mine = true
					break
				}
			}
			if !known || c.visible == nil || !c.visible[pos] || mine {
				c.mu.Unlock()
				return
			}
			if time.Since(start) > verifPatience {
				c.mu.Unlock()
				return
			}
			c.mu.Unlock()
			time.Sleep(200 * time.Microsecond)
			continue
		}
		e := c.entries[c.cur]
		if e.Auto {
			if time.Since(c.arrived) > verifSettle {
				c.remain[e.Pos]--
				verifCtlAdvance()
			}
			c.mu.Unlock()
			time.Sleep(200 * time.Microsecond)
			continue
		}
		if e.Pos == pos && verifIsMine(e) {
			c.remain[pos]--
			verifCtlAdvance()
			c.mu.Unlock()
			if e.Sel {
				// let pending timers / tickers become ready, so that the runtime's random choice among the
				// ready cases can coincide with the schedule's
				time.Sleep(3 * time.Millisecond)
				c.mu.Lock()
				c.arrived = time.Now()
				c.mu.Unlock()
			}
			return
		}
		if time.Since(start) > verifPatience || time.Since(c.arrived) > verifPatience {
			if !c.diverged {
				fmt.Printf("VERIF-DIVERGED at schedule entry %d (%s), waiting goroutine at %s\n", c.cur, e.Pos, pos)
			}
			c.diverged = true
			c.active = false
			c.mu.Unlock()
			return
		}
		c.mu.Unlock()
		time.Sleep(200 * time.Microsecond)
	}
}

var verifRT struct {
	once    sync.Once
	mu      sync.Mutex
	vals    map[string]string
	finally []func()
}

type verifAssumeFailed struct{ what string }

func verifLoad() {
	verifRT.once.Do(func() {
		verifRT.vals = map[string]string{}
		p := os.Getenv("VERIF_REPLAY")
		if p == "" {
			return
		}
		b, err := os.ReadFile(p)
		if err != nil {
			fmt.Println("VERIF-RT-ERROR cannot read replay file:", err)
			os.Exit(3)
		}
		var f verifReplayFile
		if err := json.Unmarshal(b, &f); err != nil {
			fmt.Println("VERIF-RT-ERROR cannot parse replay file:", err)
			os.Exit(3)
		}
		for k, v := range f.Nondets {
			verifRT.vals[k] = v
		}
		verifCtl.blocked = f.Blocked
		if len(f.Visible) > 0 {
			verifCtl.visible = map[string]bool{}
			for _, p := range f.Visible {
				verifCtl.visible[p] = true
			}
		}
		if len(f.Entries) > 0 {
			verifCtl.entries = f.Entries
			verifCtl.remain = map[string]int{}
			for _, e := range f.Entries {
				verifCtl.remain[e.Pos]++
			}
			verifCtl.active = true
			verifCtl.arrived = time.Now()
		}
	})
}

func verifNondetInt(name string) int {
	verifLoad()
	v, ok := verifRT.vals[name]
	if !ok {
		return 0
	}
	n, err := strconv.ParseInt(v, 10, 64)
	if err != nil {
		panic(fmt.Sprintf("bad replay value %s=%q", name, v))
	}
	return int(n)
}
func verifNondetIntN(name string, i int) int { return verifNondetInt(fmt.Sprintf("%s_%d", name, i)) }
func verifNondetBool(name string) bool {
	verifLoad()
	return verifRT.vals[name] == "true"
}
func verifNondetBoolN(name string, i int) bool { return verifNondetBool(fmt.Sprintf("%s_%d", name, i)) }

func verifAssume(cond bool) {
	if !cond {
		fmt.Println("VERIF-ASSUME-FAILED")
		panic(verifAssumeFailed{})
	}
}
func verifAssert(cond bool, id string) {
	if !cond {
		fmt.Printf("VERIF-ASSERT-FAILED id=%s\n", id)
	}
}
func verifReach(id string)            {}
func verifUF1(name string, a int) int { return verifNondetInt(fmt.Sprintf("uf_%s(%d)", name, a)) }
func verifUF2(name string, a, b int) int {
	return verifNondetInt(fmt.Sprintf("uf_%s(%d,%d)", name, a, b))
}
func verifDaemon(pattern string) {}
func verifFinally(f func()) {
	verifRT.mu.Lock()
	verifRT.finally = append(verifRT.finally, f)
	verifRT.mu.Unlock()
}
func verifGuards(on bool)        {}
var verifStepCounter int64

// verifStep: a logical clock; natively a global counter (strictly increasing across calls), which
// preserves every "happened after" comparison the harnesses make with it.
func verifStep() int { return int(atomic.AddInt64(&verifStepCounter, 1)) }
func verifYield()                { runtime.Gosched() }
func verifAwaitAfterFunc(id int) {}

var verifAtomicDepth int32

// verifAtomic: the engine executes f as one transition; natively the schedule controller lets every point
// pass while an atomic block runs.
func verifAtomic(f func()) {
	atomic.AddInt32(&verifAtomicDepth, 1)
	defer atomic.AddInt32(&verifAtomicDepth, -1)
	f()
}

func verifLastRandN() int           { return 0 }
func verifLastRand() int            { return 0 }
func verifBoundSelectDefaults(n int) {}
func verifBoundTryFailures(n int)     {}
func verifPendingAfterFuncs() int        { return 0 }
func verifCondWaiters(c *sync.Cond) int   { return 1 }

var verifHooks = map[string]func(){}

// verifBefore registers an environment action; the instrumented build calls verifHook(name) before every
// call of the named library function (only reflect.Select is hookable natively).
func verifBefore(model string, f func()) {
	verifRT.mu.Lock()
	verifHooks[model] = f
	verifRT.mu.Unlock()
}

func verifHook(name string) {
	verifRT.mu.Lock()
	f := verifHooks[name]
	verifRT.mu.Unlock()
	if f != nil {
		f()
	}
}
func verifFireDeadline(id int) {}

// verifDeadlineCtx: a context that ends with context.DeadlineExceeded when expire is called.
type verifDeadlineCtxT struct {
	context.Context
	done chan struct{}
	mu   sync.Mutex
	err  error
}

func (c *verifDeadlineCtxT) Done() <-chan struct{} { return c.done }
func (c *verifDeadlineCtxT) Err() error {
	c.mu.Lock()
	defer c.mu.Unlock()
	return c.err
}

func verifDeadlineCtx(parent context.Context) (context.Context, func()) {
	c := &verifDeadlineCtxT{Context: parent, done: make(chan struct{})}
	return c, func() {
		c.mu.Lock()
		if c.err == nil {
			c.err = context.DeadlineExceeded
			close(c.done)
		}
		c.mu.Unlock()
	}
}
