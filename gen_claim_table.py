#!/usr/bin/env python3
# Rewrites the table of DESIGN.md section 0.3 from checks.py and the evidence files of the last run.
import json, os, re, sys
sys.path.insert(0, '/verif')
from checks import CHECKS
def hdesc(h):
    n = h['fn'].replace('Harness_', '')
    if h.get('mode') == 'sched':
        return "%s (I, T=%d)" % (n, h['T'])
    return "%s (%s)" % (n, 'L' if n.startswith('C11') else 'S')
rows = []
for p in sorted(CHECKS):
    spec = CHECKS[p]
    q = ", ".join(hdesc(h) for h in spec.get('quick', []))
    t = ", ".join(hdesc(h) for h in spec.get('thorough', [])) or "—"
    wall = "?"
    try:
        ev = json.load(open('/verif/evidence/%s.json' % p))
        wall = "%d s, %d/%d obligations" % (round(ev['wall_s']), ev['coverage']['discharged'], ev['coverage']['obligations'])
    except Exception:
        pass
    rows.append("| %s | %s | %s | %s |" % (p, q, t, wall))
s = open('/verif/DESIGN.md').read()
begin = "<!-- claims-table-begin -->"
end = "<!-- claims-table-end -->"
i, j = s.index(begin), s.index(end)
tbl = begin + "\n| id | quick tier: harnesses (kind, bound) | thorough tier adds | last run of the registered tier |\n|---|---|---|---|\n" + "\n".join(rows) + "\n"
s = s[:i] + tbl + s[j:]
open('/verif/DESIGN.md', 'w').write(s)
print(len(rows), "rows")
