# Throwaway probe: hand model of bigbuff.Worker (two holders, the wait() watcher, the do() instance)
# in the functional step-unrolled encoding with POR; sizing check for a 4-goroutine harness (C17).
import sys, time
from z3 import *
T = int(sys.argv[1]); BUG = sys.argv[2] if len(sys.argv) > 2 else ""
B = BoolVal
def pcv(n): return BitVecVal(n, 3)
DONE = 7
NG = 4  # wait-group generations
def b2(n): return BitVecVal(n, 2)
def b3(n): return BitVecVal(n, 3)
G = 4   # 0,1 holders; 2 wait(); 3 do()
sh = dict(mu=B(False), curSet=B(False), curGen=b2(0), detGen=b2(0), inst=B(False), stopClosed=B(False), doneClosed=B(False),
          wact=B(False), dact=B(False), running=B(False), holders=b3(0), bad=B(False))
for k in range(NG): sh[f"cnt{k}"] = b3(0)
lc = [dict(pc=pcv(0), gen=b2(0)) for _ in range(G)]

def cnt_upd(sh, gen, delta):
    return {f"cnt{k}": If(gen == k, sh[f"cnt{k}"] + delta, sh[f"cnt{k}"]) for k in range(NG)}
def cnt_get(sh, gen):
    v = sh["cnt0"]
    for k in range(1, NG): v = If(gen == k, sh[f"cnt{k}"], v)
    return v

def holder(sh, l):
    o = []
    # Do: Lock; start instance if none; create wg if nil           (object 1 = mu)
    start = Not(sh['inst'])
    newgen = If(sh['curSet'], sh['curGen'], sh['curGen'] + 1)
    upd = dict(mu=B(True), inst=B(True), stopClosed=If(start, B(False), sh['stopClosed']), doneClosed=If(start, B(False), sh['doneClosed']),
               wact=Or(sh['wact'], start), dact=Or(sh['dact'], start), curSet=B(True), curGen=newgen)
    o.append((0, B(True), Not(sh['mu']), upd, dict(pc=pcv(1), gen=newgen), (1, 1)))
    # wg.Add(1); Unlock; Do returns: instance must exist with stop open   (object 2 = wg)
    u = cnt_upd(sh, l['gen'], 1); u.update(mu=B(False), holders=sh['holders'] + 1, bad=Or(sh['bad'], Not(sh['inst']), sh['stopClosed']))
    o.append((1, B(True), B(True), u, dict(pc=pcv(2)), (2|16, 2|16)))
    # done()
    u = cnt_upd(sh, l['gen'], -1); u.update(holders=sh['holders'] - 1)
    o.append((2, B(True), B(True), u, dict(pc=pcv(DONE)), (2|16, 2|16)))
    return o

def watcher(sh, l):
    o = []
    en = And(Not(sh['mu']), sh['wact'])
    if BUG == "nocheck":   # seeded defect: stop as soon as the first wait group drains, without re-checking x.wg
        o.append((0, B(True), en, dict(mu=B(True), curSet=B(False), detGen=sh['curGen']), dict(pc=pcv(4)), (1, 1)))
        o.append((4, B(True), cnt_get(sh, sh['detGen']) == 0, {}, dict(pc=pcv(2)), (2, 0)))
    else:
        o.append((0, sh['curSet'], en, dict(curSet=B(False), detGen=sh['curGen']), dict(pc=pcv(1)), (1, 1)))   # take wg, unlock
        o.append((0, Not(sh['curSet']), en, dict(mu=B(True)), dict(pc=pcv(2)), (1, 1)))                        # none: keep lock, stop
        if BUG == "noloop":   # seeded defect: after the first wait group drains, stop without looking for a re-created one
            o.append((1, B(True), cnt_get(sh, sh['detGen']) == 0, {}, dict(pc=pcv(5)), (2, 0)))
            o.append((5, B(True), Not(sh['mu']), dict(mu=B(True), curSet=B(False)), dict(pc=pcv(2)), (1, 1)))
        else:
            o.append((1, B(True), cnt_get(sh, sh['detGen']) == 0, {}, dict(pc=pcv(0)), (2, 0)))                    # wg.Wait
    o.append((2, B(True), B(True), dict(stopClosed=B(True), bad=Or(sh['bad'], sh['holders'] != 0)), dict(pc=pcv(3)), (4|16, 4)))  # close(stop)
    o.append((3, B(True), sh['doneClosed'], dict(inst=B(False), mu=B(False), wact=B(False)), dict(pc=pcv(0)), (8|1, 8|1)))        # <-done; reset; unlock
    return o

def doer(sh, l):
    o = []
    o.append((0, B(True), sh['dact'], dict(running=B(True), bad=Or(sh['bad'], sh['running'])), dict(pc=pcv(1)), (16, 16)))  # fn starts
    o.append((1, B(True), sh['stopClosed'], dict(running=B(False)), dict(pc=pcv(2)), (4|16, 16)))                           # <-stop; fn returns
    o.append((2, B(True), B(True), dict(doneClosed=B(True), dact=B(False)), dict(pc=pcv(0)), (8, 8)))                   # close(done)
    return o

TRF = [holder, holder, watcher, doer]
cons = []; stuckbad = []; prev = None
for t in range(T):
    sched = BitVec(f"sched@{t}", 2)
    fire = []; en_g = []
    for g in range(G):
        ens = []
        for (p, cond, en, shu, lu, fp) in TRF[g](sh, lc[g]):
            gd = simplify(And(lc[g]['pc'] == p, cond, en))
            if is_false(gd): continue
            ens.append(gd); fire.append((g, gd, shu, lu, fp))
        en_g.append(simplify(Or(ens)) if ens else B(False))
    anyen = simplify(Or(en_g))
    # quiescent with an instance left although nobody holds it, or holders unfinished
    stuckbad.append(And(Not(anyen), Or(sh['inst'], lc[0]['pc'] != DONE, lc[1]['pc'] != DONE)))
    cons.append(If(anyen, Or([And(sched == g, en_g[g]) for g in range(G)]), sched == 0))
    nsh = dict(sh); nlc = [dict(x) for x in lc]
    obj = BitVecVal(0, 5); wr = BitVecVal(0, 5)
    for (g, gd, shu, lu, fp) in fire:
        act = And(sched == g, gd)
        for k, v in shu.items(): nsh[k] = If(act, v if not isinstance(v, bool) else B(v), nsh[k])
        for k, v in lu.items(): nlc[g][k] = If(act, v, nlc[g][k])
        obj = If(act, BitVecVal(fp[0], 5), obj); wr = If(act, BitVecVal(fp[1], 5), wr)
    if prev is not None:
        ps_, po, pw_ = prev
        # ghost cells (holders/bad/running) make every pair of transitions that touch them dependent: keep POR only for object-disjoint pairs
        cons.append(Implies(And(anyen, ULT(sched, ps_)), ((pw_ & obj) | (wr & po)) != 0))
    prev = (sched, obj, wr)
    sh = {k: simplify(v) for k, v in nsh.items()}
    lc = [{k: simplify(v) for k, v in d.items()} for d in nlc]

anyenT = Or([Or([And(lc[g]['pc'] == p, c, e) for (p, c, e, _, _, _) in TRF[g](sh, lc[g])]) for g in range(G)])
def mk():
    s = Then("simplify", "propagate-values", "solve-eqs", "bit-blast", "sat").solver(); s.add(cons); return s
names = ["H0", "H1", "wait", "do"]
for name, q in [("assertion violated (two instances / stop closed while held / Do returned without instance)", sh['bad']),
                ("stuck with work outstanding", Or(stuckbad)),
                ("bound too small", anyenT),
                ("witness: finished cleanly", And(Not(anyenT), Not(sh['inst']), lc[0]['pc'] == DONE, lc[1]['pc'] == DONE, Not(sh['bad'])))]:
    s = mk(); s.add(q); t0 = time.time(); r = s.check(); print(name + ":", r, f"{time.time()-t0:.1f}s", flush=True)
    if r == sat and not name.startswith(("witness", "bound")):
        m = s.model(); print("  schedule:", " ".join(names[m.eval(BitVec(f"sched@{t}", 2), model_completion=True).as_long()] for t in range(T)))
