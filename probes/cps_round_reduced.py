# Throwaway probe: hand model of one ChanPubSub round (Send | subscriber A: recv+Wait | subscriber B:
# Add(1) then Add(-1) at arbitrary points) in the functional step-unrolled encoding with POR.
# Purpose: is a C06/C07-sized harness inside the solver ceiling?  usage: cps.py <T> [bug]
import sys, time
from z3 import *
T = int(sys.argv[1]); BUG = sys.argv[2] if len(sys.argv) > 2 else ""
MAXI = BitVecVal(0x7fffffff, 32)
def hi(s): return Extract(63, 32, s)
def lo(s): return Extract(31, 0, s)
def pack(h, l): return Concat(h, l)
B = BoolVal
def pcv(n): return BitVecVal(n, 6)
DONE = 63
G = 3
one = pack(BitVecVal(1, 32), BitVecVal(1, 32))
bv8 = lambda n: BitVecVal(n, 8)
# objects for POR footprints: 1 subs, 2 pstate, 3 ping.mutex, 4 sendingMu, 5 chan, 6 pong(lock+cond+pongN), 0 local
sh = dict(subs=bv8(2), ps=BitVecVal(0, 64), pw=B(False), pwh=B(False), pr=bv8(0), sp=B(False), shd=B(False), sr=bv8(0),
          full=B(False), taken=B(False), pl=B(False), pn=bv8(0), wS=B(False), wA=B(False), panic=B(False))
lc = [dict(pc=pcv(0 if _g != 2 else 3), n=bv8(0), st=BitVecVal(0, 64), rcv=BitVecVal(0, 32), i=BitVecVal(0, 32), sent=bv8(0), got=bv8(0), ab=bv8(0)) for _g in range(G)]

def sender(sh, l):
    ps = sh['ps']; st = l['st']; o = []
    def ext(n8): return ZeroExt(24, n8)
    o.append((0, sh['subs'] == 0, B(True), {}, dict(pc=pcv(DONE)), (1, 0)))
    o.append((0, sh['subs'] != 0, B(True), {}, dict(pc=pcv(2)), (1, 0)))          # (+ sendMu.Lock, uncontended, fused)
    o.append((2, B(True), And(Not(sh['sp']), Not(sh['shd'])), dict(sp=B(True)), dict(pc=pcv(3)), (4, 1)))
    o.append((3, B(True), sh['sr'] == 0, dict(shd=B(True)), dict(pc=pcv(4)), (4, 1)))
    o.append((4, sh['subs'] == 0, B(True), {}, dict(pc=pcv(17)), (1, 0)))
    o.append((4, sh['subs'] != 0, B(True), {}, dict(pc=pcv(6), n=sh['subs']), (1, 0)))
    ns = ps + pack(ext(l['n']), ext(l['n']))
    okadd = And(hi(ns) == ext(l['n']), lo(ns) == ext(l['n']))
    o.append((6, okadd, B(True), dict(ps=ns), dict(pc=pcv(7)), (2, 1)))
    o.append((6, Not(okadd), B(True), dict(ps=ns, panic=B(True)), dict(pc=pcv(17)), (2, 1)))
    o.append((7, ps == 0, B(True), {}, dict(pc=pcv(16), sent=bv8(0)), (2, 0)))
    o.append((7, ps != 0, B(True), {}, dict(pc=pcv(10)), (2, 0)))
    bad = Or(lo(ps) != hi(ps), UGT(hi(ps), MAXI))
    o.append((10, ps == 0, B(True), dict(pw=B(False), pwh=B(False)), dict(pc=pcv(16), sent=bv8(0)), (2, 0)))
    o.append((10, And(ps != 0, bad), B(True), dict(panic=B(True), pw=B(False), pwh=B(False)), dict(pc=pcv(17)), (2, 0)))
    o.append((10, And(ps != 0, Not(bad)), B(True), {}, dict(pc=pcv(11), st=ps, rcv=hi(ps)), (2, 0)))
    o.append((11, ps == st, B(True), dict(ps=pack(l['rcv'], lo(st) + MAXI)), dict(pc=pcv(12), i=BitVecVal(0, 32)), (2, 1)))
    o.append((11, ps != st, B(True), {}, dict(pc=pcv(10)), (2, 1)))
    more = ULT(l['i'], l['rcv'])
    o.append((12, more, Not(sh['full']), dict(full=B(True), taken=B(False)), dict(pc=pcv(13)), (5, 1)))
    o.append((12, Not(more), B(True), {}, dict(pc=pcv(14)), (0, 0)))
    o.append((13, B(True), sh['taken'], dict(full=B(False), taken=B(False)), dict(pc=pcv(12), i=l['i'] + 1), (5, 1)))
    bad14 = Or(UGT(hi(ps), l['rcv']), lo(ps) != hi(ps) + MAXI)
    o.append((14, bad14, B(True), dict(panic=B(True), pw=B(False), pwh=B(False)), dict(pc=pcv(17)), (2, 0)))
    o.append((14, Not(bad14), B(True), {}, dict(pc=pcv(15), st=ps), (2, 0)))
    o.append((15, ps == st, B(True), dict(ps=BitVecVal(0, 64), pw=B(False), pwh=B(False)), dict(pc=pcv(16), sent=Extract(7, 0, hi(st))), (2, 1)))
    o.append((15, ps != st, B(True), dict(panic=B(True), pw=B(False), pwh=B(False)), dict(pc=pcv(17)), (2, 1)))
    o.append((16, l['sent'] != 0, B(True), dict(sp=B(False), shd=B(False)), dict(pc=pcv(18)), (4, 1)))
    o.append((16, l['sent'] == 0, B(True), dict(sp=B(False), shd=B(False)), dict(pc=pcv(DONE)), (4, 1)))
    o.append((17, B(True), B(True), dict(sp=B(False), shd=B(False)), dict(pc=pcv(DONE)), (4, 1)))
    o.append((18, B(True), Not(sh['pl']), dict(pl=B(True), pn=l['sent']), dict(pc=pcv(19)), (6, 1)))
    o.append((19, B(True), B(True), dict(wA=B(False), wS=B(False)), dict(pc=pcv(20)), (6, 1)))          # Broadcast (pongN != 0 here)
    o.append((20, B(True), B(True), dict(wS=B(True), pl=B(False)), dict(pc=pcv(21)), (6, 1)))
    o.append((21, sh['pn'] != 0, And(Not(sh['wS']), Not(sh['pl'])), dict(pl=B(True)), dict(pc=pcv(20)), (6, 1)))
    o.append((21, sh['pn'] == 0, And(Not(sh['wS']), Not(sh['pl'])), {}, dict(pc=pcv(DONE)), (6, 1)))      # relock+unlock fused
    return o

def subA(sh, l):
    o = []
    o.append((0, B(True), And(sh['full'], Not(sh['taken'])), dict(taken=B(True)), dict(pc=pcv(1), got=l['got'] + 1), (5, 1)))
    if BUG == "nowait":
        o[-1] = (0, B(True), And(sh['full'], Not(sh['taken'])), dict(taken=B(True)), dict(pc=pcv(DONE), got=l['got'] + 1), (5, 1))
    o.append((1, sh['pn'] == 0, Not(sh['pl']), dict(pl=B(True)), dict(pc=pcv(2)), (6, 1)))
    o.append((1, sh['pn'] != 0, Not(sh['pl']), dict(pl=B(True)), dict(pc=pcv(4)), (6, 1)))
    o.append((2, B(True), B(True), dict(wA=B(True), pl=B(False)), dict(pc=pcv(3)), (6, 1)))
    o.append((3, sh['pn'] == 0, And(Not(sh['wA']), Not(sh['pl'])), dict(pl=B(True)), dict(pc=pcv(2)), (6, 1)))
    o.append((3, sh['pn'] != 0, And(Not(sh['wA']), Not(sh['pl'])), dict(pl=B(True)), dict(pc=pcv(4)), (6, 1)))
    # pongN--, broadcast if zero, unlock (all under pongC.L; broadcast kept as its own visible step)
    o.append((4, sh['pn'] == 1, B(True), dict(pn=sh['pn'] - 1), dict(pc=pcv(5)), (6, 1)))
    o.append((4, sh['pn'] != 1, B(True), dict(pn=sh['pn'] - 1, pl=B(False)), dict(pc=pcv(DONE)), (6, 1)))
    o.append((5, B(True), B(True), dict(wS=B(False), wA=B(False), pl=B(False)), dict(pc=pcv(DONE)), (6, 1)))
    return o

def subB(sh, l):
    ps = sh['ps']; st = l['st']; o = []
    free = And(Not(sh['sp']), Not(sh['shd']))
    o.append((0, B(True), free, dict(sr=sh['sr'] + 1), dict(pc=pcv(1)), (4, 1)))
    o.append((1, B(True), B(True), dict(subs=sh['subs'] + 1), dict(pc=pcv(2)), (1, 1)))
    o.append((2, B(True), B(True), dict(sr=sh['sr'] - 1), dict(pc=pcv(3)), (4, 1)))
    o.append((3, free, B(True), dict(sr=sh['sr'] + 1), dict(pc=pcv(6)), (4, 1)))
    o.append((3, Not(free), B(True), {}, dict(pc=pcv(4)), (4, 1)))
    o.append((4, ps == 0, B(True), {}, dict(pc=pcv(5)), (2, 0)))
    o.append((4, ps != 0, B(True), {}, dict(pc=pcv(10)), (2, 0)))
    o.append((5, free, B(True), dict(sr=sh['sr'] + 1), dict(pc=pcv(6)), (4, 1)))
    o.append((5, Not(free), B(True), {}, dict(pc=pcv(4)), (4, 1)))
    o.append((6, B(True), B(True), dict(subs=sh['subs'] - 1), dict(pc=pcv(7)), (1, 1)))
    o.append((7, B(True), B(True), dict(sr=sh['sr'] - 1), dict(pc=pcv(DONE)), (4, 1)))
    o.append((10, B(True), B(True), dict(subs=sh['subs'] - 1), dict(pc=pcv(8)), (1, 1)))
    ns = ps + ~(one - 1)
    if BUG == "noroute":
        o.append((8, B(True), B(True), {}, dict(pc=pcv(DONE)), (0, 0)))
    else:
        o.append((8, B(True), B(True), dict(ps=ns), dict(pc=pcv(11), st=ns), (2, 1)))
    rc = hi(st); ok = And(ULE(rc, MAXI), UGE(MAXI - rc, BitVecVal(1, 32)))
    nsd = lo(st) == rc; sd = lo(st) == MAXI + rc
    o.append((11, And(ok, nsd), B(True), {}, dict(pc=pcv(DONE)), (0, 0)))
    o.append((11, And(ok, Not(nsd), sd), B(True), {}, dict(pc=pcv(9)), (0, 0)))
    o.append((11, Not(And(ok, Or(nsd, sd))), B(True), dict(panic=B(True)), dict(pc=pcv(DONE)), (0, 0)))
    o.append((9, B(True), And(sh['full'], Not(sh['taken'])), dict(taken=B(True)), dict(pc=pcv(DONE), ab=l['ab'] + 1), (5, 1)))
    return o

TRF = [sender, subA, subB]
cons = []; stuck = []; prev = None
for t in range(T):
    sched = BitVec(f"sched@{t}", 2)
    cons.append(ULT(sched, G))
    fire = []; en_g = []
    for g in range(G):
        ens = []
        for (p, cond, en, shu, lu, fp) in TRF[g](sh, lc[g]):
            gd = simplify(And(lc[g]['pc'] == p, cond, en))
            if is_false(gd): continue
            ens.append(gd); fire.append((g, gd, shu, lu, fp))
        en_g.append(simplify(Or(ens)) if ens else B(False))
    anyen = simplify(Or(en_g))
    alldone = And([lc[g]['pc'] == DONE for g in range(G)])
    stuck.append(And(Not(alldone), Not(anyen)))
    cons.append(If(anyen, Or([And(sched == g, en_g[g]) for g in range(G)]), sched == 0))
    nsh = dict(sh); nlc = [dict(x) for x in lc]
    obj = BitVecVal(0, 3); wr = B(False)
    for (g, gd, shu, lu, fp) in fire:
        act = And(sched == g, gd)
        for k, v in shu.items(): nsh[k] = If(act, v, nsh[k])
        for k, v in lu.items(): nlc[g][k] = If(act, v, nlc[g][k])
        obj = If(act, BitVecVal(fp[0], 3), obj); wr = If(act, B(bool(fp[1])), wr)
    if prev is not None:
        ps_, po, pw_ = prev
        cons.append(Implies(And(anyen, ULT(sched, ps_)), And(po == obj, po != 0, Or(pw_, wr))))
    prev = (sched, obj, wr)
    sh = {k: simplify(v) for k, v in nsh.items()}
    lc = [{k: simplify(v) for k, v in d.items()} for d in nlc]

alldoneT = And([lc[g]['pc'] == DONE for g in range(G)])
anyenT = Or([Or([And(lc[g]['pc'] == p, c, e) for (p, c, e, _, _, _) in TRF[g](sh, lc[g])]) for g in range(G)])
prop = And(Not(sh['panic']), lc[0]['sent'] == lc[1]['got'], sh['subs'] == 1, sh['ps'] == 0, sh['pn'] == 0)
def mk():
    s = Then("simplify", "propagate-values", "solve-eqs", "bit-blast", "sat").solver(); s.add(cons); return s
names = ["send", "A", "B"]
for name, q in [("stuck(deadlock) reachable", Or(stuck)), ("terminal violation", And(alldoneT, Not(prop))),
                ("bound too small (someone still runnable at T)", And(Not(alldoneT), anyenT)),
                ("witness all done, B absorbed a copy", And(alldoneT, lc[2]['ab'] == 1))]:
    s = mk(); s.add(q); t0 = time.time(); r = s.check(); print(name + ":", r, f"{time.time()-t0:.1f}s", flush=True)
    if r == sat and name.startswith(("stuck", "terminal")):
        m = s.model(); print("  schedule:", " ".join(names[m.eval(BitVec(f"sched@{t}", 2), model_completion=True).as_long() % 3] for t in range(T)))
