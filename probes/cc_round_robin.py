# Functional (ite-chain) variant of the ChanCaster probe; state terms are defined, only sched/choice are free.
import sys, time
from z3 import *
R = int(sys.argv[1]); K = int(sys.argv[2]); M = int(sys.argv[3]); MODE = "sat"; T = 0
POR = "nopor" not in sys.argv
SYM = "sym" in sys.argv
MAXI = BitVecVal(0x7fffffff, 32)
def hi(s): return Extract(63, 32, s)
def lo(s): return Extract(31, 0, s)
def pack(h, l): return Concat(h, l)
G = R + 1
DONE = 63
def pcv(n): return BitVecVal(n, 6)
B = BoolVal
one = pack(BitVecVal(1, 32), BitVecVal(1, 32))

def sender_tr(sh, l, c):
    s = sh['state']; st = l['st']
    out = []
    z = s == 0
    out += [(0, z, B(True), {}, dict(pc=pcv(DONE), ret=BitVecVal(0, 32)), (1, 0)), (0, Not(z), B(True), {}, dict(pc=pcv(1)), (1, 0))]
    out += [(1, B(True), And(Not(sh['wpend']), Not(sh['w'])), dict(wpend=B(True)), dict(pc=pcv(2)), (2, 1))]
    out += [(2, B(True), sh['r'] == 0, dict(w=B(True)), dict(pc=pcv(3)), (2, 1))]
    bad = Or(lo(s) != hi(s), UGT(hi(s), MAXI))
    out += [(3, z, B(True), {}, dict(pc=pcv(9), ret=BitVecVal(0, 32)), (1, 0)),
            (3, And(Not(z), bad), B(True), dict(panic=B(True)), dict(pc=pcv(9)), (1, 0)),
            (3, And(Not(z), Not(bad)), B(True), {}, dict(pc=pcv(4), st=s, rcv=hi(s)), (1, 0))]
    ok = s == st
    out += [(4, ok, B(True), dict(state=pack(l['rcv'], lo(st) + MAXI)), dict(pc=pcv(5), i=BitVecVal(0, 32)), (1, 1)),
            (4, Not(ok), B(True), {}, dict(pc=pcv(3)), (1, 1))]
    more = ULT(l['i'], l['rcv'])
    out += [(5, more, Not(sh['full']), dict(full=B(True), taken=B(False)), dict(pc=pcv(6)), (3, 1)),
            (5, Not(more), B(True), {}, dict(pc=pcv(7)), (0, 0))]
    out += [(6, B(True), sh['taken'], dict(full=B(False), taken=B(False)), dict(pc=pcv(5), i=l['i'] + 1), (3, 1))]
    bad7 = Or(UGT(hi(s), l['rcv']), lo(s) != hi(s) + MAXI)
    out += [(7, bad7, B(True), dict(panic=B(True)), dict(pc=pcv(9)), (1, 0)), (7, Not(bad7), B(True), {}, dict(pc=pcv(8), st=s), (1, 0))]
    out += [(8, ok, B(True), dict(state=BitVecVal(0, 64)), dict(pc=pcv(9), ret=hi(st)), (1, 1)),
            (8, Not(ok), B(True), dict(panic=B(True)), dict(pc=pcv(9)), (1, 1))]
    out += [(9, B(True), B(True), dict(w=B(False), wpend=B(False)), dict(pc=pcv(DONE)), (2, 1))]
    return out

def receiver_tr(sh, l, c):
    s = sh['state']; st = l['st']
    out = []
    out += [(0, B(True), Not(sh['wpend']), dict(r=sh['r'] + 1), dict(pc=pcv(1)), (2, 1))]
    s1 = s + one
    out += [(1, B(True), B(True), dict(state=s1), dict(pc=pcv(2), st=s1), (1, 1))]
    ok = And(ULE(hi(st), MAXI), UGE(hi(st), BitVecVal(1, 32)), hi(st) == lo(st))
    out += [(2, ok, B(True), dict(r=sh['r'] - 1), dict(pc=pcv(3)), (2, 1)),
            (2, Not(ok), B(True), dict(panic=B(True), r=sh['r'] - 1), dict(pc=pcv(DONE)), (2, 1))]
    out += [(3, c, And(sh['full'], Not(sh['taken'])), dict(taken=B(True)), dict(pc=pcv(DONE), got=l['got'] + 1), (3, 1)),
            (3, Not(c), B(True), {}, dict(pc=pcv(4)), (0, 0))]
    s4 = s + ~(one - 1)
    out += [(4, B(True), B(True), dict(state=s4), dict(pc=pcv(5), st=s4), (1, 1))]
    rc = hi(st)
    ok5 = And(ULE(rc, MAXI), UGE(MAXI - rc, BitVecVal(1, 32)))
    ns = lo(st) == rc; sd = lo(st) == MAXI + rc
    out += [(5, And(ok5, ns), B(True), {}, dict(pc=pcv(DONE)), (0, 0)),
            (5, And(ok5, Not(ns), sd), B(True), {}, dict(pc=pcv(6)), (0, 0)),
            (5, Not(And(ok5, Or(ns, sd))), B(True), dict(panic=B(True)), dict(pc=pcv(DONE)), (0, 0))]
    out += [(6, B(True), And(sh['full'], Not(sh['taken'])), dict(taken=B(True)), dict(pc=pcv(DONE), absorbed=l['absorbed'] + 1), (3, 1))]
    return out

TRF = [sender_tr] + [receiver_tr] * R
sh = dict(state=BitVecVal(0, 64), wpend=B(False), w=B(False), r=BitVecVal(0, 4), full=B(False), taken=B(False), panic=B(False))
lc = [dict(pc=pcv(0), st=BitVecVal(0, 64), rcv=BitVecVal(0, 32), i=BitVecVal(0, 32), ret=BitVecVal(0, 32), got=BitVecVal(0, 4), absorbed=BitVecVal(0, 4)) for _ in range(G)]
choice = [Bool(f"choice{g}") for g in range(G)]
cons = []
if SYM:
    # symmetry breaking among identical receivers: choices sorted
    for g in range(1, G - 1):
        cons.append(Implies(choice[g + 1], choice[g]))
dead_any = []
nslots = 0
for r in range(K):
    for g in range(G):
        prev_active = None
        for m in range(M):
            act = Bool(f"act@{r}.{g}.{m}")
            nslots += 1
            if prev_active is not None:
                cons.append(Implies(act, prev_active))      # a turn is a prefix of slots
            prev_active = act
            trs = []; ens = []
            for (p, cond, en, shu, lu, fp) in TRF[g](sh, lc[g], choice[g]):
                gd = simplify(And(lc[g]['pc'] == p, cond, en))
                if is_false(gd): continue
                ens.append(gd); trs.append((gd, shu, lu))
            en_g = simplify(Or(ens)) if ens else B(False)
            cons.append(Implies(act, en_g))
            nsh = dict(sh); nl = dict(lc[g])
            for (gd, shu, lu) in trs:
                a = And(act, gd)
                for k, v in shu.items(): nsh[k] = If(a, v, nsh[k])
                for k, v in lu.items(): nl[k] = If(a, v, nl[k])
            sh = {k: simplify(v) for k, v in nsh.items()}
            lc[g] = {k: simplify(v) for k, v in nl.items()}
print("slots", nslots, flush=True)
# stuck at the end: nobody enabled and not all done
def en_of(g):
    ens = []
    for (p, cond, en, shu, lu, fp) in TRF[g](sh, lc[g], choice[g]):
        ens.append(And(lc[g]['pc'] == p, cond, en))
    return Or(ens)
anyenT = Or([en_of(g) for g in range(G)])
alldoneT = And([lc[g]['pc'] == DONE for g in range(G)])
got = sum([ZeroExt(28, lc[g]['got']) for g in range(1, G)])
prop = And(Not(sh['panic']), lc[0]['ret'] == got, sh['state'] == 0)
def mk():
    if MODE == "sat":
        s = Then("simplify", "propagate-values", "solve-eqs", "bit-blast", "sat").solver()
    else:
        s = Solver()
    s.add(cons)
    return s
for name, q in [("violation", And(alldoneT, Not(prop))), ("unfinished(still enabled at end)", And(Not(alldoneT), anyenT)), ("witness", And(alldoneT, lc[0]['ret'] == R))]:
    s = mk(); s.add(q); t0 = time.time(); r = s.check(); print(name, r, f"{time.time()-t0:.1f}s", flush=True)
