# Throwaway probe: hand model of Buffer.cleanup()+WaitCond+cooldown timer goroutine+one mutator,
# step-unrolled with a symbolic scheduler; asks for a quiescent state with reclaimable data left.
# FIX=1 models the candidate repair (timer goroutine takes b.mutex around its re-broadcast).
import sys, time, os
from z3 import *
T = int(sys.argv[1]) if len(sys.argv) > 1 else 24
FIX = os.environ.get("FIX") == "1"
B = BoolVal
def pcv(n): return BitVecVal(n, 4)
DONE = 15
G = 3  # 0 = cleanup waiter, 1 = timer goroutine (slot), 2 = mutator
sh = dict(bm=B(False), cm=B(False), timer_set=B(False), armed=B(False), bc=B(True), waiting=B(False), dirty=B(False), cleaned=BitVecVal(0, 3))
lc = [dict(pc=pcv(0)), dict(pc=pcv(0)), dict(pc=pcv(0))]

def waiter(sh, l):
    out = []
    out.append((0, B(True), Not(sh['bm']), dict(bm=B(True)), dict(pc=pcv(1))))                       # b.mutex.Lock
    # fn(): cleanup closure under cm
    out.append((1, sh['timer_set'], Not(sh['cm']), dict(bc=B(True)), dict(pc=pcv(4))))                # cooldown running: remember
    out.append((1, Not(sh['timer_set']), Not(sh['cm']),                                               # cleanupLogic + new timer
                dict(dirty=B(False), cleaned=sh['cleaned'] + If(sh['dirty'], BitVecVal(1, 3), BitVecVal(0, 3)),
                     timer_set=B(True), armed=B(True), bc=B(False)), dict(pc=pcv(4))))
    out.append((4, B(True), B(True), dict(waiting=B(True), bm=B(False)), dict(pc=pcv(5))))            # cond.Wait part 1
    out.append((5, B(True), And(Not(sh['waiting']), Not(sh['bm'])), dict(bm=B(True)), dict(pc=pcv(1))))  # part 2
    return out

def timer(sh, l):
    out = []
    out.append((0, B(True), sh['armed'], dict(armed=B(False)), dict(pc=pcv(1 if not FIX else 6))))    # <-timer.C
    if FIX:
        out.append((6, B(True), Not(sh['bm']), dict(bm=B(True)), dict(pc=pcv(1))))                     # b.mutex.Lock (repair)
    rel = dict(bm=B(False)) if FIX else {}
    out.append((1, sh['bc'], Not(sh['cm']), dict(cm=B(True), timer_set=B(False)), dict(pc=pcv(2))))   # mutex.Lock; timer=nil
    d = dict(timer_set=B(False)); d.update(rel)
    out.append((1, Not(sh['bc']), Not(sh['cm']), d, dict(pc=pcv(0))))                                 # nothing to rebroadcast
    d2 = dict(waiting=B(False), bc=B(False), cm=B(False)); d2.update(rel)
    out.append((2, B(True), B(True), d2, dict(pc=pcv(0))))                                            # b.cond.Broadcast
    return out

def mutator(sh, l):
    return [(0, B(True), Not(sh['bm']), dict(dirty=B(True), waiting=B(False)), dict(pc=pcv(DONE)))]   # commit: Lock; change; Broadcast; Unlock

TRF = [waiter, timer, mutator]
cons = []; bad = []
for t in range(T):
    sched = BitVec(f"sched@{t}", 2)
    cons.append(ULT(sched, G))
    fire = []; en_g = []
    for g in range(G):
        ens = []
        for (p, cond, en, shu, lu) in TRF[g](sh, lc[g]):
            gd = simplify(And(lc[g]['pc'] == p, cond, en))
            if is_false(gd): continue
            ens.append(gd); fire.append((g, gd, shu, lu))
        en_g.append(simplify(Or(ens)) if ens else B(False))
    anyen = simplify(Or(en_g))
    # quiescent, no timer pending, reclaimable data left, mutator finished
    bad.append(simplify(And(Not(anyen), sh['dirty'], Not(sh['armed']), lc[2]['pc'] == DONE)))
    cons.append(If(anyen, Or([And(sched == g, en_g[g]) for g in range(G)]), sched == 0))
    nsh = dict(sh); nlc = [dict(x) for x in lc]
    for (g, gd, shu, lu) in fire:
        act = And(sched == g, gd)
        for k, v in shu.items(): nsh[k] = If(act, v, nsh[k])
        for k, v in lu.items(): nlc[g][k] = If(act, v, nlc[g][k])
    sh = {k: simplify(v) for k, v in nsh.items()}
    lc = [{k: simplify(v) for k, v in d.items()} for d in nlc]
bad.append(And(sh['dirty'], Not(sh['armed']), lc[2]['pc'] == DONE, lc[0]['pc'] == 5, sh['waiting'], lc[1]['pc'] == 0))
s = Then("simplify", "propagate-values", "solve-eqs", "bit-blast", "sat").solver()
s.add(cons); s.add(Or(bad))
t0 = time.time(); r = s.check(); print("lost-reclaim reachable:", r, f"{time.time()-t0:.2f}s", "FIX" if FIX else "")
if r == sat:
    m = s.model()
    names = ["cleanup", "timer", "mutator"]
    print("schedule:", [names[m.eval(BitVec(f"sched@{t}", 2), model_completion=True).as_long()] for t in range(T)])
