# Throwaway feasibility probe: step-unrolled BMC of a hand model of ChanCaster
# (Send x1, receivers xR: Add(1); then either recv or Add(-1)) with a symbolic scheduler.
import sys, time
from z3 import *

R = int(sys.argv[1]) if len(sys.argv) > 1 else 2
T = int(sys.argv[2]) if len(sys.argv) > 2 else 40
BUG = sys.argv[3] if len(sys.argv) > 3 else ""
MAXI = BitVecVal(0x7fffffff, 32)

def hi(s): return Extract(63, 32, s)
def lo(s): return Extract(31, 0, s)
def pack(h, l): return Concat(h, l)

# shared state variables (name -> sort)
SH = dict(state=BitVecSort(64), wpend=BoolSort(), w=BoolSort(), r=BitVecSort(4),
          full=BoolSort(), taken=BoolSort(), panic=BoolSort())
# per-goroutine locals
SL = dict(pc=BitVecSort(6), st=BitVecSort(64), rcv=BitVecSort(32), i=BitVecSort(32),
          ret=BitVecSort(32), got=BitVecSort(4), absorbed=BitVecSort(4))
G = R + 1  # goroutine 0 = sender

def mk(t):
    sh = {k: Const(f"{k}@{t}", s) for k, s in SH.items()}
    lc = [{k: Const(f"g{g}.{k}@{t}", s) for k, s in SL.items()} for g in range(G)]
    return sh, lc

def pcv(n): return BitVecVal(n, 6)
DONE = 63

# transitions: list of (pc, fn(sh, l, choice) -> list of (cond, enabled, sh_updates, l_updates))
def sender():
    tr = {}
    def t0(sh, l, c):
        z = sh['state'] == 0
        return [(z, True, {}, dict(pc=pcv(DONE), ret=BitVecVal(0, 32))), (Not(z), True, {}, dict(pc=pcv(1)))]
    tr[0] = t0
    tr[1] = lambda sh, l, c: [(True, And(Not(sh['wpend']), Not(sh['w'])), dict(wpend=True), dict(pc=pcv(2)))]
    tr[2] = lambda sh, l, c: [(True, sh['r'] == 0, dict(w=True), dict(pc=pcv(3)))]
    def t3(sh, l, c):
        s = sh['state']
        z = s == 0
        bad = Or(lo(s) != hi(s), UGT(hi(s), MAXI))
        return [(z, True, {}, dict(pc=pcv(9), ret=BitVecVal(0, 32))),
                (And(Not(z), bad), True, dict(panic=True), dict(pc=pcv(9))),
                (And(Not(z), Not(bad)), True, {}, dict(pc=pcv(4), st=s, rcv=hi(s)))]
    tr[3] = t3
    def t4(sh, l, c):
        ok = sh['state'] == l['st']
        new = pack(l['rcv'], lo(l['st']) + MAXI)
        return [(ok, True, dict(state=new), dict(pc=pcv(5), i=BitVecVal(0, 32))), (Not(ok), True, {}, dict(pc=pcv(3)))]
    tr[4] = t4
    def t5(sh, l, c):
        more = ULT(l['i'], l['rcv'])
        return [(more, Not(sh['full']), dict(full=True, taken=False), dict(pc=pcv(6))),
                (Not(more), True, {}, dict(pc=pcv(7)))]
    tr[5] = t5
    tr[6] = lambda sh, l, c: [(True, sh['taken'], dict(full=False, taken=False), dict(pc=pcv(5), i=l['i'] + 1))]
    def t7(sh, l, c):
        s = sh['state']
        bad = Or(UGT(hi(s), l['rcv']), lo(s) != hi(s) + MAXI)
        return [(bad, True, dict(panic=True), dict(pc=pcv(9))), (Not(bad), True, {}, dict(pc=pcv(8), st=s))]
    tr[7] = t7
    def t8(sh, l, c):
        ok = sh['state'] == l['st']
        return [(ok, True, dict(state=BitVecVal(0, 64)), dict(pc=pcv(9), ret=hi(l['st']))),
                (Not(ok), True, dict(panic=True), dict(pc=pcv(9)))]
    tr[8] = t8
    tr[9] = lambda sh, l, c: [(True, True, dict(w=False, wpend=False), dict(pc=pcv(DONE)))]
    return tr

def receiver():
    tr = {}
    one = pack(BitVecVal(1, 32), BitVecVal(1, 32))
    tr[0] = lambda sh, l, c: [(True, Not(sh['wpend']), dict(r=sh['r'] + 1), dict(pc=pcv(1)))]  # RLock
    def t1(sh, l, c):
        s = sh['state'] + one
        if BUG == "norlock":
            pass
        return [(True, True, dict(state=s), dict(pc=pcv(2), st=s))]
    tr[1] = t1
    def t2(sh, l, c):  # validate + RUnlock
        s = l['st']
        ok = And(ULE(hi(s), MAXI), UGE(hi(s), BitVecVal(1, 32)), hi(s) == lo(s))
        return [(ok, True, dict(r=sh['r'] - 1), dict(pc=pcv(3))), (Not(ok), True, dict(panic=True, r=sh['r'] - 1), dict(pc=pcv(DONE)))]
    tr[2] = t2
    def t3(sh, l, c):  # choose: recv (c) or unsubscribe
        return [(c, And(sh['full'], Not(sh['taken'])), dict(taken=True), dict(pc=pcv(DONE), got=l['got'] + 1)),
                (Not(c), True, {}, dict(pc=pcv(4)))]
    tr[3] = t3
    def t4(sh, l, c):  # negative add
        s = sh['state'] + ~(one - 1)
        if BUG == "sub2":
            s = sh['state'] + ~(one - 1) - 1
        return [(True, True, dict(state=s), dict(pc=pcv(5), st=s))]
    tr[4] = t4
    def t5(sh, l, c):
        s = l['st']
        rc = hi(s)
        ok = And(ULE(rc, MAXI), UGE(MAXI - rc, BitVecVal(1, 32)))
        notsending = lo(s) == rc
        sending = lo(s) == MAXI + rc
        return [(And(ok, notsending), True, {}, dict(pc=pcv(DONE))),
                (And(ok, Not(notsending), sending), True, {}, dict(pc=pcv(6))),
                (Not(And(ok, Or(notsending, sending))), True, dict(panic=True), dict(pc=pcv(DONE)))]
    tr[5] = t5
    tr[6] = lambda sh, l, c: [(True, And(sh['full'], Not(sh['taken'])), dict(taken=True), dict(pc=pcv(DONE), absorbed=l['absorbed'] + 1))]
    return tr

TR = [sender()] + [receiver() for _ in range(R)]
# footprints: pc -> (obj, write)   obj: 1 state, 2 rw, 3 chan, 0 local
FP_S = {0:(1,0),1:(2,1),2:(2,1),3:(1,0),4:(1,1),5:(3,1),6:(3,1),7:(1,0),8:(1,1),9:(2,1)}
FP_R = {0:(2,1),1:(1,1),2:(2,1),3:(3,1),4:(1,1),5:(0,0),6:(3,1)}
FP = [FP_S] + [FP_R]*R
POR = len(sys.argv)>5 and sys.argv[5]=="por"
def fp_of(sched, lc):
    obj = BitVecVal(0,2); wr = BoolVal(False)
    for g in range(G):
        for p,(o,w) in FP[g].items():
            c = And(sched==g, lc[g]['pc']==p)
            obj = If(c, BitVecVal(o,2), obj); wr = If(c, BoolVal(bool(w)), wr)
    return obj, wr
prev_fp = None


s = Then("simplify","propagate-values","solve-eqs","bit-blast","sat").solver() if len(sys.argv)>4 and sys.argv[4]=="sat" else (SolverFor("QF_BV") if len(sys.argv)>4 and sys.argv[4]=="qfbv" else Solver())
sh0, lc0 = mk(0)
s.add(sh0['state'] == 0, Not(sh0['wpend']), Not(sh0['w']), sh0['r'] == 0, Not(sh0['full']), Not(sh0['taken']), Not(sh0['panic']))
for g in range(G):
    s.add(lc0[g]['pc'] == 0, lc0[g]['got'] == 0, lc0[g]['absorbed'] == 0, lc0[g]['ret'] == 0)
choice = [Bool(f"choice{g}") for g in range(G)]
states = [(sh0, lc0)]

def enabled_of(g, sh, l):
    ens = []
    for p, fn in TR[g].items():
        for cond, en, _, _ in fn(sh, l, choice[g]):
            ens.append(And(l['pc'] == p, cond, en))
    return Or(ens)

dead_any = []
for t in range(T):
    sh, lc = states[-1]
    sh2, lc2 = mk(t + 1)
    sched = BitVec(f"sched@{t}", 3)
    s.add(ULT(sched, G))
    alldone = And([lc[g]['pc'] == DONE for g in range(G)])
    en = [enabled_of(g, sh, lc[g]) for g in range(G)]
    anyen = Or(en)
    dead_any.append(And(Not(alldone), Not(anyen)))
    # stutter if nobody enabled (done or deadlock)
    stut = And([sh2[k] == sh[k] for k in SH] + [lc2[g][k] == lc[g][k] for g in range(G) for k in SL])
    steps = []
    for g in range(G):
        alts = []
        for p, fn in TR[g].items():
            for cond, e, shu, lu in fn(sh, lc[g], choice[g]):
                eff = [sh2[k] == (shu[k] if k in shu else sh[k]) for k in SH]
                eff += [lc2[g][k] == (lu[k] if k in lu else lc[g][k]) for k in SL]
                alts.append(And(lc[g]['pc'] == p, cond, e, *eff))
        others = And([lc2[h][k] == lc[h][k] for h in range(G) if h != g for k in SL])
        steps.append(And(sched == g, Or(alts), others))
    s.add(If(anyen, Or(steps), And(stut, sched==0)))
    if POR:
        cur = fp_of(sched, lc)
        if prev_fp is not None:
            ps, (po, pw) = prev_fp
            s.add(Implies(And(anyen, ULT(sched, ps)), And(po==cur[0], po!=0, Or(pw, cur[1]))))
        prev_fp = (sched, cur)
    states.append((sh2, lc2))

shT, lcT = states[-1]
alldoneT = And([lcT[g]['pc'] == DONE for g in range(G)])
got = sum([ZeroExt(28, lcT[g]['got']) for g in range(1, G)])
absd = sum([ZeroExt(28, lcT[g]['absorbed']) for g in range(1, G)])
prop = And(Not(shT['panic']), lcT[0]['ret'] == got, shT['state'] == 0)
t0 = time.time()
# Q1: deadlock reachable?
s.push(); s.add(Or(dead_any)); r1 = s.check(); s.pop()
t1 = time.time()
print("deadlock query:", r1, f"{t1-t0:.1f}s")
# Q2: terminal state violating property?
s.push(); s.add(alldoneT, Not(prop)); r2 = s.check()
t2 = time.time()
print("property-violation query:", r2, f"{t2-t1:.1f}s")
if r2 == sat:
    m = s.model()
    print([m.eval(BitVec(f"sched@{t}", 3)) for t in range(T)])
    print("ret", m.eval(lcT[0]['ret']), "got", m.eval(got), "abs", m.eval(absd), "panic", m.eval(shT['panic']), "state", m.eval(shT['state']))
s.pop()
# Q3: vacuity: is all-done reachable within T?
s.push(); s.add(alldoneT, lcT[0]['ret'] == R); r3 = s.check(); s.pop()
print("witness (all done, ret==R):", r3, f"{time.time()-t2:.1f}s")
# Q4: bound sufficiency: exists schedule not finished (and not deadlocked) at T?
s.push(); s.add(Not(alldoneT), Not(Or(dead_any))); r4 = s.check(); s.pop()
print("unfinished-at-T (bound too small if sat):", r4)
