#!/bin/bash
# usage: seed_confirm.sh <id> <worktree> <outdir>
# Confirms a seeded change independently: suite passes with it (modulo baseline-known failures),
# demo fails with it, demo passes without it. Works in the given scratch worktree only.
id=$1; wt=$2; out=$3
export GOFLAGS=-mod=mod GOPROXY=off GOSUMDB=off GOTOOLCHAIN=local
cd $wt || exit 2
git checkout -q -- . 2>/dev/null; git clean -fdq
cp $out/zz_demo_test.go $wt/zz_demo_test.go
{
echo "== without change: demo"
go test -vet=off -count=1 -run 'Demo|ZZ|zz' . 2>&1 | tail -5
git apply $out/patch.diff && echo "patch applied"
echo "== with change: demo"
go test -vet=off -count=1 -run 'Demo|ZZ|zz' . 2>&1 | tail -8
echo "== with change: suite (demo removed)"
rm -f zz_demo_test.go
go test -vet=off -count=1 -timeout 20m ./... 2>&1 | grep -E "^(--- FAIL|FAIL|ok)" | head -20
} > $out/confirm.txt 2>&1
git checkout -q -- . ; git clean -fdq
