# Per-property harness lists and bounds. Only bounds that ran clean on the unchanged tree are registered.

COMMON_ASSUMPTIONS = [
    "sequential consistency (Go memory model for data-race-free programs)",
    "environment models (sync, sync/atomic, channels/select, context, time, math/rand, fmt/errors, reflect stubs) are hand-written and trusted",
    "int is 64 bits; slices have bounded backing arrays as stated per harness",
    "map iteration order is insertion order in the model (the map ranges in scope are order-insensitive)",
]

def seq(fn, **kw):
    d = {"fn": fn, "mode": "seq"}
    d.update(kw)
    return d

def sched(fn, T, **kw):
    d = {"fn": fn, "mode": "sched", "T": T}
    d.update(kw)
    return d

CHECKS = {
    "C01": {
        "explanation": "Inductive steps: Put, Get (synchronous paths) and NewConsumer executed symbolically from an arbitrary valid Buffer state (<= 4 retained values, symbolic 62-bit offset, <= 2 consumers with symbolic committed offsets and deltas) refine one step of the FIFO specification.",
        "quick": [seq("Harness_C01_get_step"), seq("Harness_C01_put_step"), seq("Harness_C01_put_cancelled"), seq("Harness_C01_newconsumer_step")],
        "thorough": [],
        "assumptions": ["representation invariant of verifArbitraryBuffer (harness/ac_buffer_support.go)", "absolute offsets below 2^62"],
    },
    "C02": {
        "explanation": "Commit/Rollback steps from arbitrary states, rollback replay windows of <= 3 reads, package Range with a callback that stops/panics/forces a Commit failure at a symbolic index, Buffer.Range over <= 4 values.",
        "quick": [seq("Harness_C02_commit_rollback_step"), seq("Harness_C02_rollback_replays"), seq("Harness_C02_range_pkg"), seq("Harness_C02_buffer_range")],
        "thorough": [],
        "assumptions": ["representation invariant of verifArbitraryBuffer"],
    },
    "C03": {
        "explanation": "DefaultCleaner for every size >= 0 and <= 6 offsets over all 64-bit ints; FixedBufferCleaner for all 64-bit max/target/size; cleanupLogic from arbitrary states under the default, fixed and an arbitrary cleaner; Slice/Size/Diff observers.",
        "quick": [seq("Harness_C03_default_cleaner"), seq("Harness_C03_cleanup_default"), seq("Harness_C03_cleanup_arbitrary"), seq("Harness_C03_fixed_cleaner"), seq("Harness_C03_fixed_step"), seq("Harness_C03_observers")],
        "thorough": [],
        "assumptions": ["at most 6 consumer offsets for the pure cleaner, <= 2 consumers and <= 4 values for cleanupLogic"],
    },
    "C08": {
        "explanation": "ChanCaster.Add for every valid packed word and every 64-bit delta (idle), negative deltas >= -3 during a send, every poisoned word; Send || 2 receivers under every interleaving (symbolic scheduler, T=24).",
        "quick": [seq("Harness_C08_add_idle"), seq("Harness_C08_add_sending"), seq("Harness_C08_poisoned"), sched("Harness_C08_caster_race", 24)],
        "thorough": [],
        "assumptions": ["negative Add during a send is unrolled for |delta| <= 3"],
    },
    "C13": {
        "explanation": "Channel.Get/Commit/Rollback/Buffer steps from an arbitrary valid state (pending buffer <= 4, rollback <= len, source holding <= 3 values), a 6-operation symbolic history against a reference model, TryRecv on a closed source.",
        "quick": [seq("Harness_C13_get_step"), seq("Harness_C13_commit_rollback_step"), seq("Harness_C13_closed_source")],
        "thorough": [seq("Harness_C13_history", timeout_ms=300000)],
        "assumptions": ["reflect.Value.TryRecv/Interface are contract stubs", "polling path (nothing available) is outside the sequential steps"],
    },
}
