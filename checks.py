# Per-property harness lists and bounds. Only bounds that ran clean on the unchanged tree are registered.

COMMON_ASSUMPTIONS = [
    "sequential consistency (Go memory model for data-race-free programs)",
    "environment models (sync, sync/atomic, channels/select, context, time, math/rand, fmt/errors, reflect stubs) are hand-written and trusted",
    "int is 64 bits; slices have bounded backing arrays as stated per harness",
    "map iteration order is insertion order in the model (the map ranges in scope are order-insensitive)",
]

def seq(fn, **kw):
    d = {"fn": fn, "mode": "seq"}
    d.update(kw)
    return d

def sched(fn, T, **kw):
    d = {"fn": fn, "mode": "sched", "T": T}
    d.update(kw)
    return d

CHECKS = {
    "C03": {
        "explanation": "Sequential symbolic execution of DefaultCleaner for every size >= 0 and every slice of <= 6 offsets over all 64-bit ints.",
        "quick": [seq("Harness_C03_default_cleaner")],
        "thorough": [],
        "assumptions": ["at most 6 consumer offsets"],
    },
}
