# Per-property harness lists and bounds. Only bounds that ran clean on the unchanged tree are registered.

COMMON_ASSUMPTIONS = [
    "sequential consistency (Go memory model for data-race-free programs)",
    "environment models (sync, sync/atomic, channels/select, context, time, math/rand, fmt/errors, reflect stubs) are hand-written and trusted",
    "int is 64 bits; slices have bounded backing arrays as stated per harness",
    "map iteration order is insertion order in the model (the map ranges in scope are order-insensitive)",
]

def seq(fn, **kw):
    d = {"fn": fn, "mode": "seq"}
    d.update(kw)
    return d

def sched(fn, T, **kw):
    d = {"fn": fn, "mode": "sched", "T": T}
    d.update(kw)
    return d

# thorough tier: the same harnesses with the data bound raised from 4 to 6 retained values
D6 = {"verifMaxBuf": 6}

CHECKS = {
    "C01": {
        "explanation": "Inductive steps: Put, Get (synchronous paths) and NewConsumer executed symbolically from an arbitrary valid Buffer state (<= 4 retained values, symbolic 62-bit offset, <= 2 consumers with symbolic committed offsets and deltas) refine one step of the FIFO specification; a Get blocked in the asynchronous path is atomic w.r.t. a concurrent Commit/Rollback (T=18); two racing Puts, one carrying a batch of 1100 values, never interleave their values (T=10).",
        "quick": [seq("Harness_C01_get_step"), seq("Harness_C01_put_step"), seq("Harness_C01_put_cancelled"), seq("Harness_C01_newconsumer_step"), sched("Harness_C02_get_atomic", 18),
                  sched("Harness_C01_put_batches_contiguous", 10, settle_feas=1)],
        "thorough": [seq("Harness_C01_get_step", define=D6), seq("Harness_C01_put_step", define=D6), seq("Harness_C01_put_cancelled", define=D6), seq("Harness_C01_newconsumer_step", define=D6),
                     sched("Harness_C01_put_batches_contiguous", 10, settle_feas=1, define={"verifBigBatch": 4200}, timeout_ms=600000)],
        "assumptions": ["representation invariant of verifArbitraryBuffer (harness/ac_buffer_support.go)", "absolute offsets below 2^62"],
    },
    "C02": {
        "explanation": "Commit/Rollback steps from arbitrary states, rollback replay windows of <= 3 reads, package Range with a callback that stops/panics/forces a Commit failure at a symbolic index, Buffer.Range over <= 4 values.",
        "quick": [seq("Harness_C02_commit_rollback_step"), seq("Harness_C02_rollback_replays"), seq("Harness_C02_range_pkg"), seq("Harness_C02_buffer_range"), seq("Harness_C02_buffer_range_put"), sched("Harness_C02_get_atomic", 18)],
        "thorough": [seq("Harness_C02_commit_rollback_step", define=D6), seq("Harness_C02_rollback_replays", define=D6, timeout_ms=600000), seq("Harness_C02_range_pkg", define=D6, timeout_ms=600000),
                     seq("Harness_C02_buffer_range", define=D6, timeout_ms=600000), seq("Harness_C02_buffer_range_put", define=D6, timeout_ms=600000)],
        "assumptions": ["representation invariant of verifArbitraryBuffer"],
    },
    "C03": {
        "explanation": "DefaultCleaner for every size >= 0 and <= 6 offsets over all 64-bit ints; FixedBufferCleaner for all 64-bit max/target/size; cleanupLogic from arbitrary states under the default, fixed and an arbitrary cleaner; Slice/Size/Diff observers; one cleaner run with a slow custom callback racing NewConsumer under every interleaving (T=14): decision and eviction are one critical section.",
        "quick": [seq("Harness_C03_default_cleaner"), seq("Harness_C03_cleanup_default"), seq("Harness_C03_cleanup_arbitrary"), seq("Harness_C03_fixed_cleaner"), seq("Harness_C03_fixed_step"), seq("Harness_C03_observers"), sched("Harness_C03_cleanup_vs_newconsumer", 14)],
        "thorough": [seq("Harness_C03_cleanup_default", define=D6, timeout_ms=600000), seq("Harness_C03_cleanup_arbitrary", define=D6, timeout_ms=600000), seq("Harness_C03_fixed_step", define=D6), seq("Harness_C03_observers", define=D6)],
        "assumptions": ["at most 6 consumer offsets for the pure cleaner, <= 2 consumers and <= 4 values for cleanupLogic"],
    },
    "C05": {
        "explanation": "consumer.Get parked in its asynchronous path (real getAsync goroutine, WaitCond, CombineContext) racing a Put / a cancellation of the caller's context / a Buffer-side cancellation at an arbitrary point (T=30); the real WaitCond under every interleaving of waiter, its context watcher, a signaller that sets the flag under the lock and broadcasts, and a canceller (T=20); cancel-only wake-up; argument validation. Failed Get consumes nothing is covered by the Get step from arbitrary states.",
        "quick": [seq("Harness_C05_waitcond_args"), sched("Harness_C05_waitcond_cancel_only", 16), sched("Harness_C05_waitcond_wake", 20), seq("Harness_C01_get_step"),
                  sched("Harness_C05_get_wakes_put", 30, timeout_ms=400000), sched("Harness_C05_get_wakes_cancel", 30, timeout_ms=400000)],
        "thorough": [sched("Harness_C05_get_wakes_close", 30, timeout_ms=400000)],
        "assumptions": ["sync.Cond / sync.Mutex / context models", "at most one signaller and one canceller"],
    },
    "C06": {
        "explanation": "ChanPubSub: one sender || one standing subscriber that receives and Waits, under every interleaving (T=30); Send with no subscribers returns 0 without blocking.",
        "quick": [seq("Harness_C06_send_no_subscribers"), sched("Harness_C06_pubsub_one", 30, timeout_ms=300000)],
        "thorough": [],
        "assumptions": ["one sender, one subscriber, one message; ordering across several senders/subscribers is outside"],
    },
    "C07": {
        "explanation": "ChanPubSub: sanityCheckSubscribersDelta for all 32-bit counters/deltas; thorough: sender || a subscriber that unsubscribes at an arbitrary point without receiving (TryRLock spin bounded to 2 failures, T=34).",
        "quick": [seq("Harness_C07_sanity_delta"), seq("Harness_C06_send_no_subscribers")],
        "thorough": [sched("Harness_C07_unsub_mid_send", 34, timeout_ms=600000)],
        "assumptions": ["spin bound: at most 2 failed TryRLock attempts (unfair schedules that spin longer are excluded)"],
    },
    "C08": {
        "explanation": "ChanCaster.Add for every valid packed word and every 64-bit delta (idle), negative deltas >= -3 during a send, every poisoned word; Send || 2 receivers and two racing Sends || 1 receiver under every interleaving (symbolic scheduler, T=24).",
        "quick": [seq("Harness_C08_add_idle"), seq("Harness_C08_add_sending"), seq("Harness_C08_poisoned"), sched("Harness_C08_caster_race", 24), sched("Harness_C08_caster_two_senders", 24)],
        "thorough": [],
        "assumptions": ["negative Add during a send is unrolled for |delta| <= 3"],
    },
    "C09": {
        "explanation": "Exclusive: a work function that parks forever on key A does not delay a blocking Call on key B (every interleaving, T=26). Thorough: two async calls on one key with their two runner goroutines under every interleaving (T=34): work functions never overlap, each call is answered by an execution begun after it, outcomes carry the work result, no per-key state remains; and two prefix-bounded three-call harnesses of start-style calls (T=26 / 28): an execution finishing with / without a queued call while further calls arrive at arbitrary moments.",
        "quick": [sched("Harness_C09_excl_other_key", 26, timeout_ms=300000)],
        "thorough": [sched("Harness_C09_excl_same_key", 34, unwind_fn="call=2", timeout_ms=400000),
                     sched("Harness_C09_excl_late_start", 26, unwind_fn="call=2", timeout_ms=600000, prefix_only=True, wall_timeout_s=5000),
                     sched("Harness_C09_excl_idle_starts", 28, unwind_fn="call=2", timeout_ms=600000, prefix_only=True, wall_timeout_s=5000)],
        "assumptions": ["at most three calls per key in one harness, in fixed shapes (see harness comments)",
                        "the two three-call harnesses (a start-style call arriving while an execution finishes, with and without a queued call) are PREFIX-BOUNDED: every schedule is followed for T=26 / 28 steps and cut there (the bound-adequacy query is satisfiable); their assertions - in particular 'a work function is never entered while another is running', asserted inline - hold on all those prefixes, quiescence properties only on the schedules that finish within the bound"],
    },
    "C10": {
        "explanation": "Exclusive: a single call whose work function never resolves yields errResolveNotCalled, and no per-key state remains at quiescence (every interleaving of caller and runner, T=22). Thorough: two async calls on one key (T=34) and a Start that coalesces with a later CallAsync behind a running execution (T=36): every call receives exactly one outcome from an execution begun after it, one execution per coalesced batch, no per-key state remains, nothing is left blocked; the same shape with a coalesced work function that never resolves: the call is answered with errResolveNotCalled whichever goroutine of the batch executes it.",
        "quick": [sched("Harness_C10_resolve_not_called", 22)],
        "thorough": [sched("Harness_C09_excl_same_key", 34, unwind_fn="call=2", timeout_ms=400000), sched("Harness_C10_excl_start_then_call", 36, unwind_fn="call=2", timeout_ms=400000),
                     sched("Harness_C10_excl_start_then_unresolved", 36, unwind_fn="call=2", timeout_ms=400000)],
        "assumptions": ["the Start/CallAsync harness assumes the first execution is already under way when the second Start registers (verifAssume)", "at most three calls per key"],
    },
    "C12": {
        "explanation": "Closed-state calls on Buffer, consumer and Channel from arbitrary valid states (sequential); goroutine-leak / termination harnesses for Channel, WaitCond and CombineContext under every interleaving.",
        "quick": [seq("Harness_C12_buffer_closed_calls"), seq("Harness_C12_consumer_closed_calls"), seq("Harness_C12_channel_closed_calls"),
                  sched("Harness_C12_leak_channel", 16), sched("Harness_C12_leak_waitcond", 12), sched("Harness_C12_leak_combine", 10), sched("Harness_C12_close_vs_diff", 16)],
        "thorough": [],
        "assumptions": ["whole-program leak freedom is argued by composition, not checked"],
    },
    "C13": {
        "explanation": "Channel.Get/Commit/Rollback/Buffer steps from an arbitrary valid state (pending buffer <= 4, rollback <= len, source holding <= 3 values), a 6-operation symbolic history against a reference model, TryRecv on a closed source.",
        "quick": [seq("Harness_C13_get_step"), seq("Harness_C13_commit_rollback_step"), seq("Harness_C13_closed_source"), sched("Harness_C13_get_vs_close", 18)],
        "thorough": [seq("Harness_C13_history", timeout_ms=300000)],
        "assumptions": ["reflect.Value.TryRecv/Interface are contract stubs", "polling path (nothing available) is outside the sequential steps"],
    },
    "C14": {
        "explanation": "Workers: one worker body run from an arbitrary valid state (queue <= 2, any count/target): FIFO exactly-once execution, reply delivery and exit accounting; one Call racing its worker under every interleaving (T=12); Wait re-checks after a wake-up. Thorough: a Call racing a worker that is about to exit on an empty queue (T=18: the queued function is never left without a worker), and one Call with count 2 (T=18).",
        "quick": [seq("Harness_C14_worker_drain"), sched("Harness_C14_call_single_1", 12, unwind_fn="Call=1,worker=1", timeout_ms=300000), sched("Harness_C14_wait_recheck", 12)],
        "thorough": [sched("Harness_C14_worker_exit_vs_call", 18, unwind_fn="Call=1,worker=2", timeout_ms=400000), sched("Harness_C14_call_single_2", 18, unwind_fn="Call=2,worker=1", timeout_ms=400000)],
        "assumptions": ["two or more concurrent callers under full interleaving are outside the encoder's reach"],
    },
    "C16": {
        "explanation": "CombineContext (primary + 2 others, one possibly nil), ConflatedContext (2 inputs + explicit cancel), ChainAfterFunc with two racing cancellers, every subset cancelled before/after construction, every interleaving.",
        "quick": [sched("Harness_C16_combine", 12), sched("Harness_C16_conflated", 20), sched("Harness_C16_chain_afterfunc", 12)],
        "thorough": [],
        "assumptions": ["context model: cancellation of a subtree is one atomic step; 'promptly' is quiescence"],
    },
    "C17": {
        "explanation": "Worker: two Do callers whose done calls happen at arbitrary points with the real wait()/do() goroutines, every interleaving (T=28).",
        "quick": [sched("Harness_C17_worker_two_holders", 28, timeout_ms=400000)],
        "thorough": [],
        "assumptions": ["two holders"],
    },
    "C18": {
        "explanation": "ExponentialRetry's closure with symbolic outcomes per call (success / plain / fatal nested <= 3) and cancellation during a symbolic call, <= 4 calls; calcExponentialRetry for every rate and counter; waitDuration.",
        "quick": [seq("Harness_C18_retry_loop", timeout_ms=300000), seq("Harness_C18_backoff"), seq("Harness_C18_wait_duration", no_witness=True)],  # its witness waits natively for a real, arbitrary duration
        "thorough": [],
        "assumptions": ["rand.Int63n(n) returns any r with 0 <= r < n", "loop bounded to 4 calls; counter saturation covered by the backoff harness"],
        "no_native": ["Harness_C18_retry_loop", "Harness_C18_backoff"],
    },
    "C20": {
        "explanation": "LinearAttempt with count 2 (quick) and 3 (thorough): producer || receiver || optional canceller under every interleaving; ticker may tick at any time; the receiver is slower than the ticker at most twice (assumption).",
        "quick": [seq("Harness_C20_linear_args"), sched("Harness_C20_linear_attempt_2", 26, timeout_ms=600000), sched("Harness_C20_linear_attempt_deadline", 26, timeout_ms=600000), sched("Harness_C20_deadline_after_expiry", 30, timeout_ms=600000)],
        "thorough": [sched("Harness_C20_linear_attempt_3", 32, timeout_ms=900000)],
        "assumptions": ["fairness: at most 2 failed non-blocking sends in total", "time is an arbitrary non-decreasing clock"],
    },
    "C19": {
        "explanation": "Callable, everything except reflect.Value.Call on the user's function: CallArgs / CallResults / CallResultsSlice run against 6 function signatures (nullary, variadic, pointer/interface/map/slice parameters, multiple results) with <= 3 arguments or result targets drawn symbolically from a pool of 12 kinds of value (untyped nil, typed nil pointer, wrong kinds, pointers to variables of several types): never panic, build their thunk exactly when they report no error, and accept exactly what a direct call / direct assignment accepts (hand-written assignability table as independent oracle); the arguments thunk yields exactly the given arguments (zero values stay themselves, untyped nil becomes the parameter type's nil) and the results thunk stores exactly the returned values through the given targets; callable.Call rejects non-function, nil-function and mandatory-input thunks without invoking anything.",
        "quick": [seq("Harness_C19_callargs_validation"), seq("Harness_C19_callresults_validation"), seq("Harness_C19_callresultsslice_validation"), seq("Harness_C19_call_thunk_checks"), seq("Harness_C19_callargs_thunk"), seq("Harness_C19_callresults_thunk")],
        "thorough": [],
        "assumptions": ["reflect.TypeOf / Type.{NumIn,In,NumOut,Out,IsVariadic,Elem,Kind,AssignableTo} / ValueOf / New / Value.{Type,Kind,IsNil,IsZero,Elem,Set,Interface} are contract stubs answered by go/types; Value.Call is modelled only for functions made by reflect.MakeFunc (it runs the function given to MakeFunc on the argument Values)",
                        "reflect.FuncOf yields a placeholder type; reflect.Value.Call on the user's own function (x.callableValue.Call) and reflect.Append (CallResultsSlice's thunk) are not modelled, so 'invokes the function exactly once' and the slice variant's stores are outside the claim",
                        "6 signatures, 12 value kinds, <= 3 arguments/targets"],
    },
    "C11": {
        "explanation": "Lock-discipline obligations: every exported method (and unexported helper with its caller's lock) of Buffer, consumer, Channel, Workers, Worker and Exclusive.call is executed symbolically from an arbitrary valid state; on every path each access to a field listed in the guard table (engine/guards.go), and to the map / backing array behind it, holds the guarding lock in the required mode (ghost lockset in the sync models).",
        "quick": [seq("Harness_C11_buffer_methods", allow_block=True), seq("Harness_C11_consumer_methods", allow_block=True), seq("Harness_C11_channel_methods", allow_block=True),
                  seq("Harness_C11_workers_worker_methods", allow_block=True), seq("Harness_C11_exclusive_call", allow_block=True)],
        "thorough": [],
        "assumptions": ["sufficient lock-set condition, not a happens-before analysis", "guard table transcribed from struct comments; constructor writes before publication exempt",
                        "atomic-only types (ChanCaster, ChanPubSub counters) are race-free by construction of sync/atomic; their hand-off edges are exercised by the interleaving harnesses of C06-C08"],
    },
    "C04": {
        "explanation": "The real Buffer.cleanup goroutine (WaitCond loop, cooldown closure, timer goroutine) with a counting cleaner: a state change arriving at an arbitrary moment (also during the cooldown) is re-examined by the cleaner before quiescence, under every interleaving with the timer firing at an arbitrary moment (T=24); every mutator (Put, NewConsumer, commit, delete) wakes a waiter parked on the buffer's cond; one cleanupLogic step with FixedBufferCleaner(max, target<=max) leaves len <= max.",
        "quick": [sched("Harness_C04_cleaner_recheck", 26, timeout_ms=400000), sched("Harness_C04_broadcast_on_change", 14), seq("Harness_C03_fixed_step"),
                  sched("Harness_C04_cleaner_protocol", 28, timeout_ms=400000), sched("Harness_C04_close_releases", 28, timeout_ms=400000)],
        "thorough": [],
        "assumptions": ["'bounded delay' is checked as quiescence (no reachable state where nothing can run and the change has not been re-examined)", "timer may fire at any moment after it is armed"],
    },
    "C15": {
        "explanation": "Notifier.PublishContext with two subscriptions for the key (context possibly cancelled, buffered target possibly full), one with an incompatible element type and one under another key, over every choice reflect.Select may make; registry operations (duplicate/unmatched panics leave the registry unchanged, unsubscribed targets receive nothing); Publish of a nil value.",
        "quick": [seq("Harness_C15_registry", allow_block=True), seq("Harness_C15_publish", allow_block=True), seq("Harness_C15_publish_nil", allow_block=True), seq("Harness_C15_publish_cancel_during", allow_block=True, instrument=True)],
        "thorough": [],
        "assumptions": ["reflect.Select / ValueOf / Type.AssignableTo are contract stubs (type relations answered by go/types)", "targets are buffered channels (a send case on an unbuffered channel is not modelled)", "<= 2 eligible subscriptions"],
    },
}
