#!/bin/bash
# dev helper: ./dev_batch.sh <listfile> [parallel]; each line "Harness args..."; results in /tmp/batch/<Harness>.txt
list=$1; par=${2:-6}
mkdir -p /tmp/batch
run_one() { line="$1"; fn=$(echo $line | cut -d' ' -f1); /verif/dev_run.sh $line -timeout ${QTIMEOUT:-300000} > /tmp/batch/$fn.txt 2>&1; }
export -f run_one
grep -v '^$' $list | xargs -P $par -I{} bash -c 'run_one "{}"'
