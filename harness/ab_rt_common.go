package bigbuff

import "sync"

// Support code shared by the engine and the native replay (ordinary Go).

// vtok is the opaque payload type used for interface{} values in harnesses.
type vtok int

// verifAfterFuncRunner is the body of the pseudo-goroutine that stands for a context.AfterFunc
// registration in the engine's context model (never used natively).
func verifAfterFuncRunner(id int, f func()) {
	verifAwaitAfterFunc(id)
	f()
}

// verifPanics runs f and reports whether it panicked.
func verifPanics(f func()) (p bool) {
	defer func() {
		if r := recover(); r != nil {
			p = true
		}
	}()
	f()
	return false
}

// verifCall0 is the body of a goroutine started with `go f()` where f is a modelled function value
// (e.g. a context.CancelFunc).
func verifCall0(f func()) { f() }

func newCondFor(l sync.Locker) *sync.Cond { return sync.NewCond(l) }

// verifDeadlineRunner is the pseudo-goroutine of a context created with a deadline: the deadline may pass
// at any moment (engine only).
func verifDeadlineRunner(id int) { verifFireDeadline(id) }
