package bigbuff

import "context"

type verifCtxKey int

// C16 CombineContext: primary + 2 others (second may be nil), any subset cancelled before construction,
// later cancellations by separate goroutines in any order.
func Harness_C16_combine() {
	base := context.WithValue(context.Background(), verifCtxKey(1), vtok(41))
	p, pc := context.WithCancel(base)
	a, ac := context.WithCancel(context.Background())
	b, bc := context.WithCancel(context.Background())
	pre := [3]bool{verifNondetBool("pre_p"), verifNondetBool("pre_a"), verifNondetBool("pre_b")}
	late := [3]bool{verifNondetBool("late_p"), verifNondetBool("late_a"), verifNondetBool("late_b")}
	nilB := verifNondetBool("b_is_nil")
	cancels := [3]context.CancelFunc{pc, ac, bc}
	var r context.Context
	anyPre := pre[0] || pre[1] || (pre[2] && !nilB)
	// construction is one atomic step (its sequential behaviour is the claim here); later cancellations race
	verifAtomic(func() {
		for i := 0; i < 3; i++ {
			if pre[i] {
				cancels[i]()
			}
		}
		if nilB {
			r = CombineContext(p, a, nil)
		} else {
			r = CombineContext(p, a, b)
		}
		verifAssert((r.Err() != nil) == anyPre, "already_cancelled_iff_an_input_already_is")
		verifAssert(r.Value(verifCtxKey(1)) == vtok(41), "carries_primary_values")
	})
	for i := 0; i < 3; i++ {
		if late[i] && !pre[i] {
			go func(f func()) { f() }(cancels[i])
		}
	}
	verifFinally(func() {
		want := anyPre || late[0] || late[1] || (late[2] && !nilB)
		verifAssert((r.Err() != nil) == want, "cancelled_exactly_when_primary_or_any_other_is")
		verifReach("quiescent")
	})
}

// C16 ConflatedContext with 2 inputs (+ explicit cancel).
func Harness_C16_conflated() {
	verifDaemon("ConflatedContext$*") // its waiter goroutine legitimately stays parked while an input is live
	base := context.WithValue(context.Background(), verifCtxKey(1), vtok(41))
	a, ac := context.WithCancel(base)
	b, bc := context.WithCancel(context.WithValue(context.Background(), verifCtxKey(2), vtok(42)))
	pre := [2]bool{verifNondetBool("pre_a"), verifNondetBool("pre_b")}
	late := [2]bool{verifNondetBool("late_a"), verifNondetBool("late_b")}
	explicit := verifNondetBool("explicit_cancel")
	never := verifNondetBool("with_never_cancelable_input")
	var r context.Context
	var cancel context.CancelFunc
	verifAtomic(func() {
		if pre[0] {
			ac()
		}
		if pre[1] {
			bc()
		}
		if never {
			// a third input that can never be cancelled (its Done channel is nil): the result stays live
			r, cancel = ConflatedContext(a, b, context.WithValue(context.Background(), verifCtxKey(3), vtok(43)))
		} else {
			r, cancel = ConflatedContext(a, b)
		}
		verifAssert(r.Value(verifCtxKey(1)) == vtok(41) && r.Value(verifCtxKey(2)) == nil, "values_only_from_first")
		if pre[0] && pre[1] && !never {
			verifAssert(r.Err() != nil, "all_cancelled_initially_means_cancelled")
		}
	})
	if late[0] && !pre[0] {
		go func() { ac() }()
	}
	if late[1] && !pre[1] {
		go func() { bc() }()
	}
	if explicit {
		go func() { cancel() }()
	}
	verifFinally(func() {
		all := (pre[0] || late[0]) && (pre[1] || late[1]) && !never
		verifAssert((r.Err() != nil) == (all || explicit), "cancelled_iff_all_inputs_cancelled_or_cancel_called")
		verifReach("quiescent")
	})
}

// C16 ChainAfterFunc: two cancellers racing; f runs exactly once if either fired, never twice, never if neither.
func Harness_C16_chain_afterfunc() {
	ctx, c1 := context.WithCancel(context.Background())
	other, c2 := context.WithCancel(context.Background())
	calls := 0
	pre1, pre2 := verifNondetBool("pre_ctx"), verifNondetBool("pre_other")
	if pre1 {
		c1()
	}
	if pre2 {
		c2()
	}
	ChainAfterFunc(ctx, other, func() { calls++ })
	k1, k2 := verifNondetBool("cancel_ctx"), verifNondetBool("cancel_other")
	if k1 {
		go func() { c1() }()
	}
	if k2 {
		go func() { c2() }()
	}
	verifFinally(func() {
		if pre1 || pre2 || k1 || k2 {
			verifAssert(calls == 1, "f_runs_exactly_once_if_either_cancelled")
			verifReach("fired")
		} else {
			verifAssert(calls == 0, "f_never_runs_if_neither_cancelled")
		}
	})
}
