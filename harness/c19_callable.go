package bigbuff

import (
	"io"
	"reflect"
)

// C19 (validation layer only): the option constructors CallArgs / CallResults / CallResultsSlice, run
// against a function type, either report an error or build their thunk - and never panic - for argument
// and result-target lists drawn from a pool of values of different kinds, including untyped nil, typed
// nil pointers, wrong kinds and wrong lengths; and they accept exactly the lists a direct call / a
// direct assignment would accept (hand-written table of Go's assignability for the pool, independent of
// the reflect model). reflect.FuncOf / reflect.MakeFunc are opaque stubs: what the thunks do when the
// function is finally invoked (reflect.Value.Call) is outside this check.

// kinds of pool values
const (
	verifKNil = iota // untyped nil
	verifKInt
	verifKString
	verifKNilIntPtr // typed nil *int
	verifKIntPtr
	verifKStringPtr
	verifKIntSlice
	verifKIntSlicePtr
	verifKReaderPtr
	verifKErrorPtr
	verifKAnyPtr
	verifKInt64
)

func verifC19Pool(name string, i int) (interface{}, int) {
	var nilIntPtr *int
	var rdr io.Reader
	switch verifNondetIntN(name, i) {
	case 0:
		return nil, verifKNil
	case 1:
		return 7, verifKInt
	case 2:
		return "s", verifKString
	case 3:
		return nilIntPtr, verifKNilIntPtr
	case 4:
		return new(int), verifKIntPtr
	case 5:
		return new(string), verifKStringPtr
	case 6:
		return []int{1}, verifKIntSlice
	case 7:
		return new([]int), verifKIntSlicePtr
	case 8:
		return rdr, verifKNil // a nil interface value of static type io.Reader arrives as untyped nil
	case 9:
		return new(io.Reader), verifKReaderPtr
	case 10:
		return new(error), verifKErrorPtr
	case 11:
		return new(interface{}), verifKAnyPtr
	default:
		return int64(3), verifKInt64
	}
}

// parameter / result types used by the signatures
const (
	verifTInt = iota
	verifTString
	verifTIntPtr
	verifTReader
	verifTMap
	verifTAny
	verifTError
	verifTIntSlice
)

// verifC19Func: a function value, its parameter types (the last one is the variadic element type when
// variadic) and its result types.
func verifC19Func() (fn interface{}, params []int, variadic bool, results []int) {
	switch verifNondetInt("signature") {
	case 0:
		return func() {}, nil, false, nil
	case 1:
		return func(a int) int { return a }, []int{verifTInt}, false, []int{verifTInt}
	case 2:
		return func(p *int, s string) (string, error) { return s, nil }, []int{verifTIntPtr, verifTString}, false, []int{verifTString, verifTError}
	case 3:
		return func(a int, rest ...string) {}, []int{verifTInt, verifTString}, true, nil
	case 4:
		return func(r io.Reader, m map[string]int) []int { return nil }, []int{verifTReader, verifTMap}, false, []int{verifTIntSlice}
	default:
		return func(vs ...interface{}) (int, io.Reader) { return len(vs), nil }, []int{verifTAny}, true, []int{verifTInt, verifTReader}
	}
}

// verifC19ArgOK: may a pool value of kind k be passed for a parameter of type t in a direct call?
func verifC19ArgOK(t, k int) bool {
	switch t {
	case verifTInt:
		return k == verifKInt
	case verifTString:
		return k == verifKString
	case verifTIntPtr:
		return k == verifKNil || k == verifKNilIntPtr || k == verifKIntPtr
	case verifTReader, verifTMap:
		return k == verifKNil // nothing else in the pool implements io.Reader / is a map
	case verifTAny:
		return true
	}
	return false
}

// verifC19TargetOK: may a result of type t be stored through a pool value of kind k (a non-nil pointer
// to a variable the result is assignable to)?
func verifC19TargetOK(t, k int) bool {
	if k == verifKAnyPtr {
		return true
	}
	switch t {
	case verifTInt:
		return k == verifKIntPtr
	case verifTString:
		return k == verifKStringPtr
	case verifTError:
		return k == verifKErrorPtr
	case verifTIntSlice:
		return k == verifKIntSlicePtr
	case verifTReader:
		return k == verifKReaderPtr
	}
	return false
}

func Harness_C19_callargs_validation() {
	fn, params, variadic, _ := verifC19Func()
	n := verifNondetInt("nargs")
	verifAssume(n >= 0 && n <= 3)
	args := make([]interface{}, 0, 3)
	var kinds [3]int
	for i := 0; i < n; i++ {
		v, k := verifC19Pool("arg", i)
		args = append(args, v)
		kinds[i] = k
	}
	// what a direct call fn(args...) would accept
	want := true
	fixed := len(params)
	if variadic {
		fixed--
	}
	if n < fixed || (!variadic && n != fixed) {
		want = false
	} else {
		for i := 0; i < n; i++ {
			t := 0
			if i < fixed {
				t = params[i]
			} else {
				t = params[len(params)-1]
			}
			if !verifC19ArgOK(t, kinds[i]) {
				want = false
			}
		}
	}
	cfg := &callConfig{this: reflect.TypeOf(fn)}
	err := CallArgs(args...)(cfg)
	verifAssert((err == nil) == (cfg.args != nil), "callargs_builds_its_thunk_exactly_when_it_reports_no_error")
	verifAssert((err == nil) == want, "callargs_accepts_exactly_what_a_direct_call_accepts")
	if err == nil {
		verifReach("accepted")
	} else {
		verifReach("rejected")
	}
}

func Harness_C19_callresults_validation() {
	fn, _, _, results := verifC19Func()
	n := verifNondetInt("nresults")
	verifAssume(n >= 0 && n <= 3)
	targets := make([]interface{}, 0, 3)
	var kinds [3]int
	for i := 0; i < n; i++ {
		v, k := verifC19Pool("target", i)
		targets = append(targets, v)
		kinds[i] = k
	}
	want := n == len(results)
	if want {
		for i := 0; i < n; i++ {
			if !verifC19TargetOK(results[i], kinds[i]) {
				want = false
			}
		}
	}
	cfg := &callConfig{this: reflect.TypeOf(fn)}
	err := CallResults(targets...)(cfg)
	verifAssert((err == nil) == (cfg.results != nil), "callresults_builds_its_thunk_exactly_when_it_reports_no_error")
	verifAssert((err == nil) == want, "callresults_accepts_exactly_assignable_non_nil_pointer_targets")
	if err == nil {
		verifReach("accepted")
	} else {
		verifReach("rejected")
	}
}

func Harness_C19_callresultsslice_validation() {
	fn, _, _, results := verifC19Func()
	target, k := verifC19Pool("slice_target", 0)
	// only *[]int is a pointer to a slice in the pool: every result must be assignable to int
	want := k == verifKIntSlicePtr
	for _, t := range results {
		if t != verifTInt {
			want = false
		}
	}
	cfg := &callConfig{this: reflect.TypeOf(fn)}
	err := CallResultsSlice(target)(cfg)
	verifAssert((err == nil) == (cfg.results != nil), "callresultsslice_builds_its_thunk_exactly_when_it_reports_no_error")
	verifAssert((err == nil) == want, "callresultsslice_accepts_exactly_a_pointer_to_a_slice_every_result_fits")
	if err == nil {
		verifReach("accepted")
	} else {
		verifReach("rejected")
	}
}

// C19 call_thunk_checks: callable.Call validates the kind and arity of the raw thunks before invoking
// anything: a non-function, a nil function or an args function with mandatory inputs is an error.
func Harness_C19_call_thunk_checks() {
	invoked := false
	var nilFn func()
	c := &callable{callableValue: verifMockCallableValue{&invoked}}
	var args interface{}
	switch verifNondetInt("args_kind") {
	case 0:
		args = 5
	case 1:
		args = nilFn
	case 2:
		args = func(a int) {}
	default:
		args = func(a int, b ...int) {}
	}
	err := c.Call(args, nil)
	verifAssert(err != nil && !invoked, "bad_args_thunk_is_an_error_and_nothing_is_invoked")
	var results interface{}
	if verifNondetBool("results_nil_func") {
		results = nilFn
	} else {
		results = "x"
	}
	err = c.Call(nil, results)
	verifAssert(err != nil && !invoked, "bad_results_thunk_is_an_error_and_nothing_is_invoked")
}

type verifMockCallableValue struct{ invoked *bool }

func (m verifMockCallableValue) Type() reflect.Type { return reflect.TypeOf(func() {}) }
func (m verifMockCallableValue) Call(in []reflect.Value) []reflect.Value {
	*m.invoked = true
	return nil
}

// comparable pool for the thunk harness (== on the interface values must not panic): includes zero values
// of concrete types, which must arrive as themselves and not as nil when the parameter is an interface
var verifC19SharedInt = new(int)

func verifC19PoolCmp(name string, i int) (interface{}, int) {
	var nilIntPtr *int
	switch verifNondetIntN(name, i) {
	case 0:
		return nil, verifKNil
	case 1:
		return 7, verifKInt
	case 2:
		return 0, verifKInt
	case 3:
		return "s", verifKString
	case 4:
		return "", verifKString
	case 5:
		return nilIntPtr, verifKNilIntPtr
	case 6:
		return verifC19SharedInt, verifKIntPtr
	default:
		return int64(0), verifKInt64
	}
}

// C19 callargs_thunk: when CallArgs accepts an argument list, the thunk it builds (the function
// callable.Call runs to obtain the arguments) yields exactly one value per argument and each value is the
// given argument - a zero value of a concrete type stays that value when the parameter is an interface,
// an untyped nil becomes the parameter type's nil.
func Harness_C19_callargs_thunk() {
	fn, _, _, _ := verifC19Func()
	n := verifNondetInt("nargs")
	verifAssume(n >= 0 && n <= 3)
	args := make([]interface{}, 0, 3)
	for i := 0; i < n; i++ {
		v, _ := verifC19PoolCmp("arg", i)
		args = append(args, v)
	}
	cfg := &callConfig{this: reflect.TypeOf(fn)}
	if err := CallArgs(args...)(cfg); err != nil {
		return
	}
	outs := reflect.ValueOf(cfg.args).Call(nil)
	verifAssert(len(outs) == n, "thunk_yields_one_value_per_argument")
	for i := 0; i < n && i < len(outs); i++ {
		if args[i] == nil {
			verifAssert(outs[i].IsNil(), "untyped_nil_argument_arrives_as_nil")
		} else {
			verifAssert(outs[i].Interface() == args[i], "thunk_yields_exactly_the_given_arguments")
		}
	}
	verifReach("thunk-checked")
}

// C19 callresults_thunk: the results thunk built by CallResults (the function callable.Call runs on the
// values the call returned) stores exactly those values through the given targets and touches nothing else.
func Harness_C19_callresults_thunk() {
	var i, other int
	var a interface{}
	var s string
	other = 99
	useAny := verifNondetBool("target_is_interface_var")
	if verifNondetBool("two_results") {
		fn := func() (string, int) { return "", 0 }
		cfg := &callConfig{this: reflect.TypeOf(fn)}
		var t0 interface{} = &s
		if useAny {
			t0 = &a
		}
		if err := CallResults(t0, &i)(cfg); err != nil {
			verifAssert(false, "valid_targets_are_accepted")
			return
		}
		reflect.ValueOf(cfg.results).Call([]reflect.Value{reflect.ValueOf("r"), reflect.ValueOf(41)})
		if useAny {
			verifAssert(a == "r" && s == "", "results_are_stored_through_the_given_targets")
		} else {
			verifAssert(s == "r" && a == nil, "results_are_stored_through_the_given_targets")
		}
		verifAssert(i == 41 && other == 99, "results_are_stored_through_the_given_targets")
		return
	}
	fn := func() int { return 0 }
	cfg := &callConfig{this: reflect.TypeOf(fn)}
	var t0 interface{} = &i
	if useAny {
		t0 = &a
	}
	if err := CallResults(t0)(cfg); err != nil {
		verifAssert(false, "valid_targets_are_accepted")
		return
	}
	reflect.ValueOf(cfg.results).Call([]reflect.Value{reflect.ValueOf(0)})
	if useAny {
		verifAssert(a == 0 && i == 0, "a_zero_result_is_stored_as_itself")
		verifAssert(a != nil, "a_zero_result_is_stored_as_itself")
	} else {
		verifAssert(i == 0 && a == nil, "a_zero_result_is_stored_as_itself")
	}
	verifAssert(other == 99, "nothing_else_is_touched")
}
