package bigbuff

import (
	"math"
)

// C08 add_word (not sending): for every valid packed word (h,h) and every 64-bit delta, Add either
// panics or returns h+delta with both halves updated.
func Harness_C08_add_idle() {
	x := &ChanCaster[chan int, int]{C: make(chan int, 1)}
	h := verifNondetInt("h")
	verifAssume(h >= 0 && h <= math.MaxInt32)
	x.state.Store(uint64(h)<<32 | uint64(uint32(h)))
	delta := verifNondetInt("delta")
	var r int
	panicked := verifPanics(func() { r = x.Add(delta) })
	post := x.state.Load()
	nh := h + delta
	valid := delta >= -math.MaxInt32 && delta <= math.MaxInt32 && nh >= 0 && nh <= math.MaxInt32
	verifAssert(panicked == !valid, "add_panics_exactly_when_out_of_range")
	if !panicked {
		verifAssert(r == nh, "add_returns_new_count")
		verifAssert(post == uint64(nh)<<32|uint64(uint32(nh)), "add_updates_both_halves")
		verifReach("returned")
	} else {
		verifReach("panicked")
		if delta == 0 || delta > math.MaxInt32 || delta < -math.MaxInt32 {
			verifAssert(post == uint64(h)<<32|uint64(uint32(h)), "rejected_delta_leaves_state")
		} else {
			// the word is left inconsistent (poisoned): not of the form (k,k) or (k,k+MaxInt32) with k <= MaxInt32
			hi, lo := uint32(post>>32), uint32(post)
			verifAssert(!(hi <= math.MaxInt32 && (lo == hi || lo == hi+math.MaxInt32)), "failed_add_poisons_state")
		}
	}
}

// C08 add_word (sending): word (h, h+MaxInt32); delta in [-3, +inf): negative deltas absorb exactly
// |delta| values from the channel.
func Harness_C08_add_sending() {
	ch := make(chan int, 3)
	ch <- 1
	ch <- 2
	ch <- 3
	x := &ChanCaster[chan int, int]{C: ch}
	h := verifNondetInt("h")
	verifAssume(h >= 0 && h <= math.MaxInt32)
	x.state.Store(uint64(h)<<32 | uint64(uint32(h)+math.MaxInt32))
	delta := verifNondetInt("delta")
	verifAssume(delta >= -3)
	var r int
	panicked := verifPanics(func() { r = x.Add(delta) })
	post := x.state.Load()
	nh := h + delta
	if delta == 0 {
		verifAssert(!panicked && r == h, "inspect_during_send_ok")
	}
	if delta > 0 {
		// positive Add can never be observed during a send (Send holds the write lock); if the word says
		// sending it must panic rather than return
		verifAssert(panicked, "positive_add_on_sending_word_panics")
	}
	if delta < 0 {
		verifAssert(panicked == (nh < 0), "negative_add_during_send_panics_iff_underflow")
		if !panicked {
			verifAssert(r == nh, "negative_add_returns_new_count")
			verifAssert(len(ch) == 3+delta, "negative_add_absorbs_exactly_delta_values")
			verifAssert(post == uint64(nh)<<32|uint64(uint32(nh)+math.MaxInt32), "negative_add_keeps_sending_offset")
			verifReach("absorbed")
		}
	}
}

// C08 poisoned word: from every word that is not (h,h) / (h,h+MaxInt32) with h <= MaxInt32, every Add and
// every Send panics.
func Harness_C08_poisoned() {
	x := &ChanCaster[chan int, int]{C: make(chan int, 1)}
	w := verifNondetInt("word")
	hi, lo := uint32(uint64(w)>>32), uint32(uint64(w))
	verifAssume(!(hi <= math.MaxInt32 && (lo == hi || lo == hi+math.MaxInt32)))
	x.state.Store(uint64(w))
	if verifNondetBool("do_send") {
		panicked := verifPanics(func() { x.Send(5) })
		verifAssert(panicked, "send_on_poisoned_word_panics")
	} else {
		delta := verifNondetInt("delta")
		panicked := verifPanics(func() { x.Add(delta) })
		verifAssert(panicked, "add_on_poisoned_word_panics")
	}
}

// C08 caster_race: Send || 2 receivers registered before the send, each of which either receives or
// deregisters (symbolic choice), under every interleaving.
func Harness_C08_caster_race() {
	x := NewChanCaster(make(chan int))
	verifAtomic(func() { x.Add(2) })
	var sent int
	var got [2]int
	var recvd, dereg [2]bool
	go func() { sent = x.Send(7) }()
	for i := 0; i < 2; i++ {
		i := i
		go func() {
			if verifNondetBoolN("recv", i) {
				got[i] = <-x.C
				recvd[i] = true
			} else {
				x.Add(-1)
				dereg[i] = true
			}
		}()
	}
	verifFinally(func() {
		n, d := 0, 0
		for i := 0; i < 2; i++ {
			if recvd[i] {
				n++
				verifAssert(got[i] == 7, "received_value_is_sent_value")
			}
			if dereg[i] {
				d++
			}
		}
		verifAssert(sent == n, "send_result_equals_deliveries")
		verifAssert(n+d == 2, "deliveries_plus_absorbed_equals_registered")
		verifAssert(x.Add(0) == 0, "state_zero_after_send")
		verifReach("quiescent")
	})
}

// C08 caster_two_senders: two racing Sends and one registered receiver: exactly one Send delivers (returns
// 1), the other finds nobody registered (returns 0); neither panics; the state ends at zero.
func Harness_C08_caster_two_senders() {
	x := NewChanCaster(make(chan int))
	verifAtomic(func() { x.Add(1) })
	var sent [2]int
	var got int
	go func() { sent[0] = x.Send(7) }()
	go func() { sent[1] = x.Send(8) }()
	go func() { got = <-x.C }()
	verifFinally(func() {
		verifAssert(sent[0]+sent[1] == 1, "exactly_one_send_delivers")
		verifAssert((sent[0] == 1 && got == 7) || (sent[1] == 1 && got == 8), "receiver_gets_the_value_of_the_counting_send")
		verifAssert(x.Add(0) == 0, "state_zero_after_sends")
		verifReach("quiescent")
	})
}
