package bigbuff

// C09/C10 excl_same_key: two async calls on one key issued back-to-back by one goroutine; the two runner
// goroutines race each other and the caller. Work functions mark ghost state on entry/exit.
func Harness_C09_excl_same_key() {
	var e Exclusive
	running, overlap, execs := 0, false, 0
	var execStart [2]int
	work := func(who int) func() (interface{}, error) {
		return func() (interface{}, error) {
			running++
			if running > 1 {
				overlap = true
			}
			id := execs
			execs++
			if id < 2 {
				execStart[id] = verifStep()
			}
			verifYield() // the work takes time: a scheduling point while "running"
			running--
			return vtok(100*(who+1) + id), nil
		}
	}
	call0 := verifStep()
	out0 := e.CallAsync("k", work(0))
	call1 := verifStep()
	out1 := e.CallAsync("k", work(1))
	r0 := <-out0
	r1 := <-out1
	verifAssert(r0 != nil && r1 != nil, "every_async_call_gets_an_outcome")
	t0, _ := verifTokOf(r0.Result)
	t1, _ := verifTokOf(r1.Result)
	id0, id1 := t0%100, t1%100
	verifAssert(r0.Error == nil && r1.Error == nil, "outcomes_carry_the_work_result")
	verifAssert(id0 >= 0 && id0 < execs && id1 >= 0 && id1 < execs, "answered_by_a_real_execution")
	verifAssert(execStart[id0] > call0 && execStart[id1] > call1, "answered_by_an_execution_begun_after_the_call")
	if id0 == id1 {
		// (two calls issued one after the other by one goroutine never coalesce: the first holds the key's
		// mutex until its runner has installed the successor item; kept as an assertion, not as a witness)
		verifAssert(t0 == t1, "coalesced_callers_get_the_identical_result")
	} else {
		verifReach("separate")
	}
	verifAssert(t0/100 >= 1 && t0/100 <= 2 && t1/100 >= 1 && t1/100 <= 2, "executed_function_was_supplied_by_a_caller")
	_, ok0 := <-out0
	verifAssert(!ok0, "outcome_channel_closed_after_one_value")
	verifFinally(func() {
		verifAssert(!overlap, "work_functions_for_one_key_never_overlap")
		verifAssert(execs >= 1 && execs <= 2, "executions_never_outnumber_calls")
		verifAssert(len(e.work) == 0, "no_per_key_state_remains")
		verifReach("quiescent")
	})
}

// C10 resolve_not_called: a work function that returns without resolving yields errResolveNotCalled.
func Harness_C10_resolve_not_called() {
	var e Exclusive
	out := e.CallWithOptions(ExclusiveKey(1), ExclusiveWork(func(resolve func(interface{}, error)) {}))
	r := <-out
	verifAssert(r != nil && r.Error == errResolveNotCalled && r.Result == nil, "unresolved_work_yields_resolve_not_called")
	verifFinally(func() {
		verifAssert(len(e.work) == 0, "no_per_key_state_remains")
	})
}

// C09 excl_other_key: key A's work parks forever; a call on key B must still finish.
func Harness_C09_excl_other_key() {
	var e Exclusive
	verifDaemon(".call$1") // A's runner stays parked by construction; B's completion is asserted explicitly
	block := make(chan struct{})
	e.Start("A", func() (interface{}, error) { <-block; return nil, nil })
	bDone := false
	go func() {
		v, err := e.Call("B", func() (interface{}, error) { return vtok(5), nil })
		verifAssert(v == vtok(5) && err == nil, "other_key_call_returns_its_result")
		bDone = true
	}()
	verifFinally(func() {
		verifAssert(bDone, "long_running_key_does_not_delay_other_keys")
	})
}

// C10 excl_start_then_call: while an execution for the key is running, a Start arrives (first registrant of
// the next batch) and then an async Call; when the running work finishes, the two waiter goroutines race to
// become the executor of the next batch. Every call must be answered, nothing may wedge, no state remains.
func Harness_C10_excl_start_then_call() {
	var e Exclusive
	release := make(chan struct{})
	execs := 0
	verifAtomic(func() {
		e.Start("k", func() (interface{}, error) { <-release; return vtok(1), nil })
	})
	var out <-chan *ExclusiveOutcome
	go func() {
		// issued once the first execution is under way (assumption: only such schedules are of interest)
		verifYield()
		verifAtomic(func() {
			e.mutex.Lock()
			it := e.work["k"]
			started := it != nil && it.running && it.count == 0
			e.mutex.Unlock()
			verifAssume(started)
			e.Start("k", func() (interface{}, error) { execs++; return vtok(2), nil })
		})
		// the Start's waiter must park (releasing the key's mutex) before the next call can register
		out = e.CallAsync("k", func() (interface{}, error) { execs++; return vtok(3), nil })
		close(release)
		r := <-out
		verifAssert(r != nil && r.Error == nil && (r.Result == vtok(2) || r.Result == vtok(3)), "coalesced_call_is_answered_by_the_next_execution")
	}()
	verifFinally(func() {
		verifAssert(execs == 1, "one_execution_for_the_coalesced_batch")
		verifAssert(len(e.work) == 0, "no_per_key_state_remains")
		verifReach("quiescent")
	})
}

// C10 excl_start_then_unresolved: as excl_start_then_call, but the coalesced call's work function (the
// batch's effective work, being registered last) returns without resolving. Whichever goroutine of the
// batch executes it - the Start's (which has no outcome channel) or the call's - the call is answered
// with errResolveNotCalled and the key becomes idle again.
func Harness_C10_excl_start_then_unresolved() {
	var e Exclusive
	release := make(chan struct{})
	execs := 0
	verifAtomic(func() {
		e.Start("k", func() (interface{}, error) { <-release; return vtok(1), nil })
	})
	go func() {
		verifYield()
		var out <-chan *ExclusiveOutcome
		verifAtomic(func() {
			e.mutex.Lock()
			it := e.work["k"]
			started := it != nil && it.running && it.count == 0
			e.mutex.Unlock()
			verifAssume(started)
			e.Start("k", func() (interface{}, error) { execs++; return vtok(2), nil })
		})
		out = e.CallWithOptions(ExclusiveKey("k"), ExclusiveWork(func(resolve func(interface{}, error)) { execs++ }))
		close(release)
		r := <-out
		verifAssert(r != nil && r.Result == nil && r.Error == errResolveNotCalled, "unresolved_work_answers_the_coalesced_call_with_an_error")
	}()
	verifFinally(func() {
		verifAssert(execs == 1, "one_execution_for_the_coalesced_batch")
		verifAssert(len(e.work) == 0, "no_per_key_state_remains")
		verifReach("quiescent")
	})
}

// verifExclGhost: ghost state shared by the work functions for the non-overlap assertion.
type verifExclGhost struct {
	running, execs int
	overlap        bool
}

func (g *verifExclGhost) work(tok int, park <-chan struct{}) func() (interface{}, error) {
	return func() (interface{}, error) {
		g.running++
		if g.running > 1 {
			g.overlap = true
		}
		// asserted at once (not only at quiescence), so that the prefix-bounded harnesses see it too
		verifAssert(g.running <= 1, "work_function_entered_while_another_is_running")
		g.execs++
		if park != nil {
			<-park
		} else {
			verifYield() // the work takes time: a scheduling point while "running"
		}
		g.running--
		return vtok(tok), nil
	}
}

// C09 excl_late_start: the slimmest three-call shape - A is executing (parked), a start-style call B is
// queued behind it, A is released and another start-style call C arrives at an arbitrary moment while A
// finishes and B's runner takes over. No outcome channels are involved; the only question is whether a
// work function can be entered while another is running.
func Harness_C09_excl_late_start() {
	var e Exclusive
	var g verifExclGhost
	release := make(chan struct{})
	verifAtomic(func() { e.Start("k", g.work(1, release)) })
	go func() {
		verifYield()
		verifAtomic(func() {
			e.mutex.Lock()
			it := e.work["k"]
			started := it != nil && it.running && it.count == 0
			e.mutex.Unlock()
			verifAssume(started)
			e.Start("k", g.work(2, nil))
			close(release)
		})
		e.Start("k", g.work(3, nil))
	}()
	verifFinally(func() {
		verifAssert(!g.overlap, "work_functions_for_one_key_never_overlap")
		verifAssert(g.execs == 2 || g.execs == 3, "one_execution_per_batch")
		verifAssert(len(e.work) == 0, "no_per_key_state_remains")
		verifReach("quiescent")
	})
}

// C09 excl_idle_starts: A is executing with nobody queued; it is released and two start-style calls B, C
// arrive one after the other at arbitrary moments while A finishes (the key is idle when its work returns).
func Harness_C09_excl_idle_starts() {
	var e Exclusive
	var g verifExclGhost
	release := make(chan struct{})
	verifAtomic(func() { e.Start("k", g.work(1, release)) })
	go func() {
		verifYield()
		verifAtomic(func() {
			e.mutex.Lock()
			it := e.work["k"]
			started := it != nil && it.running && it.count == 0
			e.mutex.Unlock()
			verifAssume(started)
			close(release)
		})
		e.Start("k", g.work(2, nil))
		e.Start("k", g.work(3, nil))
	}()
	verifFinally(func() {
		verifAssert(!g.overlap, "work_functions_for_one_key_never_overlap")
		verifAssert(g.execs == 2 || g.execs == 3, "one_execution_per_batch")
		verifAssert(len(e.work) == 0, "no_per_key_state_remains")
		verifReach("quiescent")
	})
}
