package bigbuff

import "context"

// C01 get_step: consumer.Get (synchronous paths) from an arbitrary valid state returns exactly the value
// at the consumer's read position, advances the read position by one, and touches nothing else; a
// lagging consumer gets an error and is not advanced.
func Harness_C01_get_step() {
	s := verifArbitraryBuffer(0)
	c, committed, delta := s.verifAddConsumer("c")
	rel := committed + delta - s.off
	verifAssume(rel < s.n) // the asynchronous (blocking) path is covered by the interleaving harnesses
	v, err := c.Get(context.Background())
	if rel < 0 {
		verifAssert(err != nil, "lagging_consumer_get_errors")
		verifAssert(c.offset == delta, "failed_get_does_not_advance")
		verifReach("lagging")
	} else {
		verifAssert(err == nil, "available_value_is_returned_without_error")
		t, ok := verifTokOf(v)
		verifAssert(ok && t == s.vals[rel], "get_returns_value_at_read_position")
		verifAssert(c.offset == delta+1, "successful_get_advances_by_one")
		verifReach("ok")
	}
	verifAssert(s.b.consumers[c] == committed, "get_leaves_committed_offset")
	verifAssert(s.b.offset == s.off && len(s.b.buffer) == s.n, "get_leaves_buffer")
}

// C01 put_step: Put appends exactly its arguments, in order, and changes nothing else.
func Harness_C01_put_step() {
	s := verifArbitraryBuffer(3)
	c, committed, delta := s.verifAddConsumer("c")
	k := verifNondetInt("k")
	verifAssume(k >= 0 && k <= 3)
	a0, a1, a2 := verifNondetInt("a0"), verifNondetInt("a1"), verifNondetInt("a2")
	args := []interface{}{vtok(a0), vtok(a1), vtok(a2)}
	err := s.b.Put(context.Background(), args[:k]...)
	verifAssert(err == nil, "put_on_open_buffer_succeeds")
	b := s.b
	verifAssert(len(b.buffer) == s.n+k && b.offset == s.off, "put_appends_k_values")
	for i := 0; i < verifMaxBuf+3; i++ {
		if i < s.n {
			t, ok := verifTokOf(b.buffer[i])
			verifAssert(ok && t == s.vals[i], "put_keeps_existing_values")
		} else if i < s.n+k {
			t, ok := verifTokOf(b.buffer[i])
			j := i - s.n
			want := a0
			if j == 1 {
				want = a1
			}
			if j == 2 {
				want = a2
			}
			verifAssert(ok && t == want, "put_appends_arguments_in_order")
		}
	}
	verifAssert(b.consumers[c] == committed && c.offset == delta && len(b.consumers) == 1, "put_leaves_consumers")
	verifReach("end")
}

// C01 put on a cancelled buffer / with a cancelled caller context changes nothing and errors.
func Harness_C01_put_cancelled() {
	s := verifArbitraryBuffer(1)
	ctx, cancel := context.WithCancel(context.Background())
	if verifNondetBool("cancel_caller") {
		cancel()
	} else {
		s.b.cancel()
	}
	err := s.b.Put(ctx, vtok(1))
	verifAssert(err != nil, "put_cancelled_errors")
	verifAssert(len(s.b.buffer) == s.n && s.b.offset == s.off, "put_cancelled_changes_nothing")
}

// C01 newconsumer_step: a new consumer starts at the oldest retained value, nothing else changes.
func Harness_C01_newconsumer_step() {
	s := verifArbitraryBuffer(0)
	c0, committed, delta := s.verifAddConsumer("c")
	ci, err := s.b.NewConsumer()
	verifAssert(err == nil, "newconsumer_ok")
	c, ok := ci.(*consumer)
	verifAssert(ok && c != nil && c != c0, "newconsumer_is_fresh")
	verifAssert(s.b.consumers[c] == s.off && c.offset == 0, "newconsumer_starts_at_oldest_retained")
	verifAssert(len(s.b.consumers) == 2 && s.b.consumers[c0] == committed && c0.offset == delta, "newconsumer_leaves_others")
	verifAssert(s.b.offset == s.off && len(s.b.buffer) == s.n, "newconsumer_leaves_buffer")
	if s.n > 0 {
		v, err := c.Get(context.Background())
		t, ok := verifTokOf(v)
		verifAssert(err == nil && ok && t == s.vals[0], "first_get_is_oldest_retained")
		verifReach("first_get")
	}
}

// C01 put_batches_contiguous: two producers race; one Put carries a large batch (verifBigBatch values),
// the other a single value. Whatever the interleaving, the single value ends up before or after the
// whole batch - never inside it (each call's values are contiguous and in argument order).
const verifBigBatch = 1100

func Harness_C01_put_batches_contiguous() {
	s := verifConcreteBuffer()
	b := s.b
	big := make([]interface{}, verifBigBatch)
	big[0], big[1], big[verifBigBatch-2], big[verifBigBatch-1] = vtok(1), vtok(2), vtok(3), vtok(4)
	var e1, e2 error
	go func() { e1 = b.Put(context.Background(), big...) }()
	go func() { e2 = b.Put(context.Background(), vtok(9)) }()
	verifFinally(func() {
		verifAssert(e1 == nil && e2 == nil, "puts_succeed")
		verifAssert(len(b.buffer) == verifBigBatch+1, "all_values_appended")
		if len(b.buffer) == verifBigBatch+1 {
			first := b.buffer[0] == vtok(9)
			last := b.buffer[verifBigBatch] == vtok(9)
			verifAssert(first || last, "a_concurrent_put_never_lands_inside_another_calls_batch")
			o := 0
			if first {
				o = 1
			}
			verifAssert(b.buffer[o] == vtok(1) && b.buffer[o+1] == vtok(2) && b.buffer[o+verifBigBatch-2] == vtok(3) && b.buffer[o+verifBigBatch-1] == vtok(4), "batch_in_argument_order")
		}
		verifReach("quiescent")
	})
}
