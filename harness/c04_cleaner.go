package bigbuff

import (
	"context"
	"time"
)

// C04 cleaner_protocol: the real cleanup goroutine (WaitCond, cooldown closure, timer goroutine) on a
// Buffer with one consumer and one value; the consumer commits at an arbitrary moment; the cooldown timer
// fires at an arbitrary moment. At quiescence the fully consumed prefix must have been reclaimed.
func Harness_C04_cleaner_protocol() {
	verifDaemon(".cleanup")    // parked in cond.Wait for the life of the buffer
	verifDaemon(".WaitCond$1") // context watcher of a WaitCond that never returns
	verifDaemon(".NewConsumer$1")
	b := new(Buffer)
	var c Consumer
	verifAtomic(func() {
		_ = b.SetCleanerConfig(CleanerConfig{Cleaner: DefaultCleaner, Cooldown: time.Millisecond})
		c, _ = b.NewConsumer()
		_ = b.Put(context.Background(), vtok(1))
		v, err := c.Get(context.Background())
		verifAssert(err == nil && v == vtok(1), "setup_get")
	})
	go func() {
		verifAssert(c.Commit() == nil, "commit_ok")
	}()
	verifFinally(func() {
		verifAssert(b.Size() == 0, "consumed_prefix_is_reclaimed_without_further_activity")
		verifReach("quiescent")
	})
}

// C04 close_releases: closing the slowest consumer releases its hold.
func Harness_C04_close_releases() {
	verifDaemon(".cleanup")
	verifDaemon(".WaitCond$1")
	verifDaemon(".NewConsumer$1")
	b := new(Buffer)
	var slow, fast Consumer
	verifAtomic(func() {
		_ = b.SetCleanerConfig(CleanerConfig{Cleaner: DefaultCleaner, Cooldown: 0})
		slow, _ = b.NewConsumer()
		fast, _ = b.NewConsumer()
		_ = b.Put(context.Background(), vtok(1))
		_, _ = fast.Get(context.Background())
		_ = fast.Commit()
	})
	go func() { _ = slow.Close() }()
	verifFinally(func() {
		verifAssert(b.Size() == 0, "closing_the_slowest_consumer_releases_its_hold")
	})
}

// C04 broadcast_on_change: every mutator broadcasts while holding b.mutex: checked by parking a waiter on
// b.cond and requiring it to be woken by each kind of change.
func Harness_C04_broadcast_on_change() {
	s := verifArbitraryBuffer(1)
	c, _, delta := s.verifAddConsumer("c")
	_, _, _ = s.verifAddConsumer("other") // a second consumer stays registered
	b := s.b
	op := verifNondetInt("op")
	verifAssume(op >= 0 && op <= 3)
	woken := false
	go func() {
		b.mutex.Lock()
		b.cond.Wait()
		woken = true
		b.mutex.Unlock()
	}()
	go func() {
		// only schedules in which the waiter is already parked are of interest (assumption)
		b.mutex.Lock()
		parked := verifCondWaiters(b.cond) > 0
		b.mutex.Unlock()
		verifAssume(parked)
		switch op {
		case 0:
			_ = b.Put(context.Background(), vtok(9))
		case 1:
			_, _ = b.NewConsumer()
		case 2:
			verifAssume(delta > 0)
			_ = c.Commit()
		case 3:
			b.delete(c)
		}
	}()
	verifDaemon(".NewConsumer$1")
	verifFinally(func() {
		verifAssert(woken, "every_state_change_broadcasts")
	})
}

// C04 cleaner_recheck: the real cleanup goroutine with a counting cleaner on an empty Buffer. A state
// change (made under b.mutex, followed by a broadcast, exactly like commit/delete/Put do) arrives at an
// arbitrary moment, possibly during the cooldown; the timer fires at an arbitrary moment. At quiescence the
// cleaner must have looked at the buffer at least once after the change - otherwise a reclaimable prefix
// would stay until some unrelated later operation.
func Harness_C04_cleaner_recheck() {
	verifDaemon(".cleanup")
	verifDaemon(".WaitCond$1")
	b := new(Buffer)
	changed, sawChange := false, false
	verifAtomic(func() {
		_ = b.SetCleanerConfig(CleanerConfig{Cooldown: time.Millisecond, Cleaner: func(size int, offsets []int) int {
			if changed {
				sawChange = true
			}
			return 0
		}})
	})
	go func() {
		b.mutex.Lock()
		changed = true
		b.cond.Broadcast()
		b.mutex.Unlock()
	}()
	if verifNondetBool("other_waiter_on_cond") {
		// somebody else parked on the buffer's cond (as a blocked Get is): wake-ups meant for the cleaner
		// must not be consumed by it
		verifDaemon("Harness_C04_cleaner_recheck$3")
		go func() {
			b.mutex.Lock()
			for !verifNondetBool("never") {
				b.cond.Wait()
			}
			b.mutex.Unlock()
		}()
	}
	verifFinally(func() {
		verifAssert(sawChange, "cleaner_rechecks_after_a_change_during_cooldown")
		verifReach("quiescent")
	})
}
