package bigbuff

// C03: DefaultCleaner for every size >= 0 and every slice of <= 6 offsets over all 64-bit ints.
func Harness_C03_default_cleaner() {
	const N = 6
	n := verifNondetInt("n")
	verifAssume(n >= 0 && n <= N)
	size := verifNondetInt("size")
	verifAssume(size >= 0)
	backing := make([]int, N)
	for i := 0; i < N; i++ {
		backing[i] = verifNondetIntN("off", i)
	}
	offsets := backing[:n]

	r := DefaultCleaner(size, offsets)

	// reference: 0 if some offset is 0 or none is > 0 ... min(size, min positive offsets)
	anyZero := false
	anyActive := false
	ref := size
	for i := 0; i < N; i++ {
		if i < n {
			o := backing[i]
			if o == 0 {
				anyZero = true
			}
			if o > 0 {
				anyActive = true
				if o < ref {
					ref = o
				}
			}
		}
	}
	if anyZero || !anyActive {
		ref = 0
	}
	verifAssert(r == ref, "default_cleaner_equals_reference")
	verifAssert(r >= 0 && r <= size, "default_cleaner_in_range")
	for i := 0; i < N; i++ {
		if i < n && backing[i] >= 0 {
			verifAssert(r <= backing[i], "default_cleaner_never_passes_a_consumer")
		}
	}
	verifReach("end")
}

// C03 cleanup_step under the default cleaner with <= 2 consumers: nothing unread is evicted.
func Harness_C03_cleanup_default() {
	s := verifArbitraryBuffer(0)
	nc := verifNondetInt("consumers")
	verifAssume(nc >= 0 && nc <= 2)
	var cs [2]*consumer
	var cm, dl [2]int
	if nc >= 1 {
		cs[0], cm[0], dl[0] = s.verifAddConsumer("c0")
	}
	if nc >= 2 {
		cs[1], cm[1], dl[1] = s.verifAddConsumer("c1")
	}
	b := s.b
	backing := b.buffer[:verifMaxBuf]
	b.mutex.Lock()
	changed := b.cleanupLogic()
	b.mutex.Unlock()
	shift := b.offset - s.off
	verifAssert(shift >= 0 && shift <= s.n, "shift_clamped_to_buffer")
	verifAssert(changed == (shift > 0), "cleanup_reports_change")
	verifAssert(len(b.buffer) == s.n-shift, "buffer_is_old_suffix")
	for i := 0; i < verifMaxBuf; i++ {
		if i < shift {
			verifAssert(backing[i] == nil, "dropped_cells_are_cleared")
		} else if i < s.n {
			t, ok := verifTokOf(b.buffer[i-shift])
			verifAssert(ok && t == s.vals[i], "retained_values_unchanged")
		}
	}
	if nc == 0 {
		verifAssert(shift == 0, "nothing_evicted_without_consumers")
	}
	for i := 0; i < 2; i++ {
		if i < nc {
			verifAssert(b.consumers[cs[i]] == cm[i] && cs[i].offset == dl[i], "cleanup_leaves_consumers")
			if cm[i]-s.off >= 0 {
				verifAssert(cm[i]-b.offset >= 0, "nothing_uncommitted_is_evicted")
			}
		}
	}
	// exact amount: min committed relative offset over active consumers
	if nc == 1 && cm[0]-s.off >= 0 && cm[0]-s.off <= s.n {
		verifAssert(shift == cm[0]-s.off, "evicts_exactly_the_committed_prefix")
		verifReach("one_consumer")
	}
	if nc == 2 && cm[0]-s.off >= 0 && cm[1]-s.off >= 0 {
		m := cm[0]
		if cm[1] < m {
			m = cm[1]
		}
		verifAssert(shift == m-s.off, "evicts_exactly_the_common_committed_prefix")
		verifReach("two_consumers")
	}
}

// C03 cleanup_step under an arbitrary cleaner result (any 64-bit int): the shift is clamped, the
// retained suffix is exact, and a consumer whose next value was evicted errors while others are unaffected.
func Harness_C03_cleanup_arbitrary() {
	s := verifArbitraryBuffer(0)
	c, committed, delta := s.verifAddConsumer("c")
	want := verifNondetInt("cleaner_result")
	var gotSize int
	var gotOffsets []int
	s.b.cleaner = &CleanerConfig{Cleaner: func(size int, offsets []int) int {
		gotSize, gotOffsets = size, offsets
		return want
	}}
	b := s.b
	b.mutex.Lock()
	b.cleanupLogic()
	b.mutex.Unlock()
	verifAssert(gotSize == s.n && len(gotOffsets) == 1 && gotOffsets[0] == committed-s.off, "cleaner_sees_size_and_relative_committed_offsets")
	shift := b.offset - s.off
	exp := want
	if exp > s.n {
		exp = s.n
	}
	if exp < 0 {
		exp = 0
	}
	verifAssert(shift == exp, "shift_is_clamped_cleaner_result")
	verifAssert(len(b.buffer) == s.n-shift, "buffer_is_old_suffix")
	for i := 0; i < verifMaxBuf; i++ {
		if i >= shift && i < s.n {
			t, ok := verifTokOf(b.buffer[i-shift])
			verifAssert(ok && t == s.vals[i], "retained_values_unchanged")
		}
	}
	// the consumer's next Get after the trim
	rel := committed + delta - s.off
	if rel < s.n {
		v, err := c.Get(nil)
		if rel < shift {
			verifAssert(err != nil, "evicted_next_value_means_error")
			verifAssert(c.offset == delta, "failed_get_does_not_advance")
			verifReach("lagging_after_trim")
		} else {
			t, ok := verifTokOf(v)
			verifAssert(err == nil && ok && t == s.vals[rel], "consumer_at_or_beyond_trim_point_unaffected")
			verifReach("unaffected_after_trim")
		}
	}
}

// C03 fixed_cleaner: for all 64-bit max, target, size and <= 3 offsets.
func Harness_C03_fixed_cleaner() {
	max, target, size := verifNondetInt("max"), verifNondetInt("target"), verifNondetInt("size")
	verifAssume(size >= 0)
	n := verifNondetInt("n")
	verifAssume(n >= 0 && n <= 3)
	backing := []int{verifNondetInt("o0"), verifNondetInt("o1"), verifNondetInt("o2")}
	offsets := backing[:n]
	calls := 0
	var note FixedBufferCleanerNotification
	withCb := verifNondetBool("with_callback")
	var cb func(FixedBufferCleanerNotification)
	if withCb {
		cb = func(nt FixedBufferCleanerNotification) { calls++; note = nt }
	}
	cl := FixedBufferCleaner(max, target, cb)
	r := cl(size, offsets)
	if size > max {
		verifAssert(r == size-target, "forced_trim_is_size_minus_target")
		if withCb {
			verifAssert(calls == 1 && note.Max == max && note.Target == target && note.Size == size && note.Trim == r && len(note.Offsets) == n, "callback_called_once_with_details")
		}
		verifReach("forced")
	} else {
		verifAssert(calls == 0, "no_callback_without_forced_trim")
		verifAssert(r == DefaultCleaner(size, offsets), "below_max_equals_default_cleaner")
		verifReach("default")
	}
}

// C03/C04 fixed_quiescent: one cleanupLogic step with FixedBufferCleaner(max, target<=max) leaves len <= max.
func Harness_C03_fixed_step() {
	s := verifArbitraryBuffer(0)
	c, committed, _ := s.verifAddConsumer("c")
	_ = c
	max, target := verifNondetInt("max"), verifNondetInt("target")
	verifAssume(target <= max && target >= 0)
	s.b.cleaner = &CleanerConfig{Cleaner: FixedBufferCleaner(max, target, nil)}
	b := s.b
	b.mutex.Lock()
	b.cleanupLogic()
	b.mutex.Unlock()
	verifAssert(len(b.buffer) <= max || len(b.buffer) == 0, "fixed_cleaner_bounds_size")
	if s.n > max {
		verifAssert(len(b.buffer) == target, "forced_trim_reaches_target")
		verifReach("trimmed")
	} else if committed-s.off >= 0 && committed-s.off <= s.n {
		verifAssert(len(b.buffer) == s.n-(committed-s.off), "below_max_behaves_like_default")
	}
}

// C03 observers: Slice, Size, Diff.
func Harness_C03_observers() {
	s := verifArbitraryBuffer(0)
	c, committed, delta := s.verifAddConsumer("c")
	b := s.b
	verifAssert(b.Size() == s.n, "size_is_retained_length")
	sl := b.Slice()
	verifAssert(len(sl) == s.n, "slice_is_retained_suffix")
	for i := 0; i < verifMaxBuf; i++ {
		if i < s.n {
			t, ok := verifTokOf(sl[i])
			verifAssert(ok && t == s.vals[i], "slice_is_retained_suffix")
		}
	}
	d, ok := b.Diff(c)
	verifAssert(ok && d == s.off+s.n-(committed+delta), "diff_is_put_count_minus_read_position")
	verifAssert((d > s.n) == (committed+delta < s.off), "diff_exceeds_size_iff_lagging")
	foreign := &consumer{producer: new(Buffer)}
	d2, ok2 := b.Diff(foreign)
	verifAssert(!ok2 && d2 == 0, "diff_foreign_consumer")
	var nilc Consumer
	d3, ok3 := b.Diff(nilc)
	verifAssert(!ok3 && d3 == 0, "diff_nil_consumer")
	// Slice is a copy
	if s.n > 0 {
		sl[0] = vtok(12345)
		t, _ := verifTokOf(b.buffer[0])
		verifAssert(t == s.vals[0], "slice_is_a_copy")
	}
}

// C03 cleanup_vs_newconsumer: one cleaner run (custom callback that takes time, deciding like the default
// cleaner) races the creation of a new consumer. The decision and the eviction are one critical section:
// a consumer registered meanwhile is never left pointing below the buffer's new offset.
func Harness_C03_cleanup_vs_newconsumer() {
	verifDaemon(".NewConsumer$1")
	s := verifConcreteBuffer()
	b := s.b
	b.buffer = []interface{}{vtok(1), vtok(2), vtok(3)}
	b.offset = 10
	s.verifAddConsumerAt(12, 0) // has read (and committed) the first two values
	b.cleaner = &CleanerConfig{Cooldown: DefaultCleanerCooldown, Cleaner: func(size int, offsets []int) int {
		verifYield() // the callback takes time
		return DefaultCleaner(size, offsets)
	}}
	var c2 Consumer
	var err error
	evicted := false
	go func() {
		b.mutex.Lock()
		evicted = b.cleanupLogic()
		b.mutex.Unlock()
	}()
	go func() { c2, err = b.NewConsumer() }()
	verifFinally(func() {
		verifAssert(err == nil && c2 != nil, "newconsumer_succeeds")
		// the consumed prefix goes unless the new consumer (which starts at the buffer's first value) got in first
		verifAssert((evicted && b.offset == 12 && len(b.buffer) == 1) || (!evicted && b.offset == 10 && len(b.buffer) == 3), "cleaner_evicts_the_consumed_prefix_or_nothing")
		if evicted {
			verifReach("evicted")
		}
		if cc, ok := c2.(*consumer); ok {
			off, present := b.consumers[cc]
			verifAssert(present && off >= b.offset && off <= b.offset+len(b.buffer), "new_consumer_never_points_below_the_buffer_offset")
		}
		verifReach("quiescent")
	})
}
