package bigbuff

// C03: DefaultCleaner for every size >= 0 and every slice of <= 6 offsets over all 64-bit ints.
func Harness_C03_default_cleaner() {
	const N = 6
	n := verifNondetInt("n")
	verifAssume(n >= 0 && n <= N)
	size := verifNondetInt("size")
	verifAssume(size >= 0)
	backing := make([]int, N)
	for i := 0; i < N; i++ {
		backing[i] = verifNondetIntN("off", i)
	}
	offsets := backing[:n]

	r := DefaultCleaner(size, offsets)

	// reference: 0 if some offset is 0 or none is > 0 ... min(size, min positive offsets)
	anyZero := false
	anyActive := false
	ref := size
	for i := 0; i < N; i++ {
		if i < n {
			o := backing[i]
			if o == 0 {
				anyZero = true
			}
			if o > 0 {
				anyActive = true
				if o < ref {
					ref = o
				}
			}
		}
	}
	if anyZero || !anyActive {
		ref = 0
	}
	verifAssert(r == ref, "default_cleaner_equals_reference")
	verifAssert(r >= 0 && r <= size, "default_cleaner_in_range")
	for i := 0; i < N; i++ {
		if i < n && backing[i] >= 0 {
			verifAssert(r <= backing[i], "default_cleaner_never_passes_a_consumer")
		}
	}
	verifReach("end")
}
