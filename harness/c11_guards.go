package bigbuff

import (
	"context"
)

// C11 (L): every exported method of the lock-guarded types, from an arbitrary valid state, on every path,
// accesses guarded fields (and the maps / backing arrays behind them) only with the guarding lock held
// in the required mode. The guard table is in engine/guards.go (transcribed from the struct comments).

func Harness_C11_buffer_methods() {
	s := verifArbitraryBuffer(2)
	c, _, _ := s.verifAddConsumer("c")
	b := s.b
	ctx := context.Background()
	verifGuards(true)
	switch verifNondetInt("method") {
	case 0:
		_ = b.Put(ctx, vtok(1), vtok(2))
	case 1:
		_, _ = b.NewConsumer()
	case 2:
		_ = b.Slice()
	case 3:
		_ = b.Size()
	case 4:
		_ = b.CleanerConfig()
	case 5:
		_ = b.SetCleanerConfig(CleanerConfig{Cleaner: DefaultCleaner})
	case 6:
		_, _ = b.Diff(c)
	case 7:
		_ = b.Done()
	case 8:
		_ = b.Range(ctx, c, func(int, interface{}) bool { return true })
	case 9:
		b.delete(c)
	case 10:
		_ = b.commit(c, 1)
	case 11:
		_, _, _ = b.getAsync(ctx, c, 0)
	case 12:
		b.mutex.Lock()
		b.cleanupLogic()
		b.mutex.Unlock()
	default:
		verifGuards(false)
		verifAssume(c.offset == 0)
		delete(b.consumers, c)
		verifGuards(true)
		_ = b.Close()
	}
	verifGuards(false)
	verifReach("end")
}

func Harness_C11_consumer_methods() {
	s := verifArbitraryBuffer(0)
	c, committed, delta := s.verifAddConsumer("c")
	verifGuards(true)
	switch verifNondetInt("method") {
	case 0:
		verifAssume(committed+delta-s.off < s.n)
		_, _ = c.Get(context.Background())
	case 1:
		_ = c.Commit()
	case 2:
		_ = c.Rollback()
	case 3:
		_ = c.Done()
	default:
		verifAssume(delta == 0)
		_ = c.Close()
	}
	verifGuards(false)
	verifReach("end")
}

func Harness_C11_channel_methods() {
	s := verifArbitraryChannel()
	c := s.c
	verifGuards(true)
	switch verifNondetInt("method") {
	case 0:
		verifAssume(s.rb > 0 || s.k > 0)
		_, _ = c.Get(nil)
	case 1:
		_ = c.Commit()
	case 2:
		_ = c.Rollback()
	case 3:
		_ = c.Buffer()
	case 4:
		_ = c.Done()
	default:
		_ = c.Close()
	}
	verifGuards(false)
	verifReach("end")
}

func Harness_C11_workers_worker_methods() {
	var w Workers
	Harness_helper_initCond(&w)
	w.count, w.target = 1, 1
	out := make(chan struct {
		result interface{}
		error  error
	}, 1)
	w.queue = append(w.queue, &verifWorkItem{value: func() (interface{}, error) { return nil, nil }, output: out})
	var x Worker
	verifGuards(true)
	switch verifNondetInt("method") {
	case 0:
		w.worker()
	case 1:
		_ = w.Count()
	case 2:
		verifGuards(false)
		w.count = 0
		w.queue = nil
		verifGuards(true)
		w.Wait()
	default:
		done := x.Do(func(stop <-chan struct{}) {})
		_ = done
	}
	verifGuards(false)
	verifReach("end")
}

func Harness_C11_exclusive_call() {
	var e Exclusive
	verifGuards(true)
	_ = e.CallAsync("k", func() (interface{}, error) { return nil, nil })
	e.Start("j", func() (interface{}, error) { return nil, nil })
	verifGuards(false)
	verifReach("end")
}
