package bigbuff

import (
	"context"
	"sync"
)

// Intrinsics intercepted by the symbolic engine (body-less here; native bodies are in rt_native.go,
// which replaces this file for replay).

func verifNondetInt(name string) int
func verifNondetIntN(name string, i int) int
func verifNondetBool(name string) bool
func verifNondetBoolN(name string, i int) bool
func verifAssume(cond bool)
func verifAssert(cond bool, id string)
func verifReach(id string)
func verifUF1(name string, a int) int
func verifUF2(name string, a, b int) int
func verifDaemon(pattern string)
func verifFinally(f func())
func verifGuards(on bool)
func verifStep() int
func verifYield()
func verifAwaitAfterFunc(id int)
func verifAtomic(f func())
func verifLastRandN() int
func verifLastRand() int
func verifBoundSelectDefaults(n int)
func verifBoundTryFailures(n int)
func verifPendingAfterFuncs() int
func verifCondWaiters(c *sync.Cond) int
func verifBefore(model string, f func())
func verifFireDeadline(id int)
func verifDeadlineCtx(parent context.Context) (context.Context, func())
