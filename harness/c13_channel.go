package bigbuff

import (
	"context"
	"reflect"
)

// verifArbitraryChannel builds a Channel in an arbitrary valid state: pending buffer of len n <= 4 with
// `rollback` entries still to be replayed, source channel holding k <= 3 more values.
type verifChanState struct {
	c        *Channel
	src      chan vtok
	n, rb, k int
	buf      [4]int
	more     [3]int
}

func verifArbitraryChannel() *verifChanState {
	s := &verifChanState{}
	s.src = make(chan vtok, 3)
	s.k = verifNondetInt("src_len")
	verifAssume(s.k >= 0 && s.k <= 3)
	for i := 0; i < 3; i++ {
		s.more[i] = verifNondetIntN("src", i)
		if i < s.k {
			s.src <- vtok(s.more[i])
		}
	}
	c := &Channel{valid: true, source: reflect.ValueOf(s.src), done: make(chan struct{}), rate: DefaultChannelPollRate}
	c.ctx, c.cancel = context.WithCancel(context.Background())
	s.n = verifNondetInt("buf_len")
	verifAssume(s.n >= 0 && s.n <= 4)
	s.rb = verifNondetInt("rollback")
	verifAssume(s.rb >= 0 && s.rb <= s.n) // representation invariant
	backing := make([]interface{}, 8)
	for i := 0; i < 4; i++ {
		s.buf[i] = verifNondetIntN("buf", i)
		backing[i] = vtok(s.buf[i])
	}
	c.buffer = backing[:s.n]
	c.rollback = s.rb
	s.c = c
	return s
}

// C13 get_step: Get replays rolled-back entries in order before taking anything new from the source; a
// new value is appended to the pending buffer; nothing is taken after cancellation.
func Harness_C13_get_step() {
	s := verifArbitraryChannel()
	c := s.c
	cancelled := verifNondetBool("closed")
	if cancelled {
		c.cancel()
	}
	verifAssume(cancelled || s.rb > 0 || s.k > 0) // otherwise Get polls (blocking path: interleaving harness)
	v, err := c.Get(nil)
	if cancelled {
		verifAssert(err != nil, "get_after_close_errors")
		verifAssert(len(s.src) == s.k && len(c.buffer) == s.n && c.rollback == s.rb, "nothing_taken_after_close")
		verifReach("closed")
		return
	}
	verifAssert(err == nil, "get_ok")
	t, ok := verifTokOf(v)
	if s.rb > 0 {
		verifAssert(ok && t == s.buf[s.n-s.rb], "get_replays_rolled_back_values_in_order")
		verifAssert(c.rollback == s.rb-1 && len(c.buffer) == s.n && len(s.src) == s.k, "replay_takes_nothing_from_source")
		verifReach("replay")
	} else {
		verifAssert(ok && t == s.more[0], "get_takes_next_source_value")
		verifAssert(len(s.src) == s.k-1 && len(c.buffer) == s.n+1 && c.rollback == 0, "taken_value_is_pending")
		t2, ok2 := verifTokOf(c.buffer[s.n])
		verifAssert(ok2 && t2 == s.more[0], "taken_value_is_appended_to_buffer")
		verifReach("fresh")
	}
	for i := 0; i < 4; i++ {
		if i < s.n {
			t3, ok3 := verifTokOf(c.buffer[i])
			verifAssert(ok3 && t3 == s.buf[i], "get_keeps_pending_buffer")
		}
	}
}

// C13 commit / rollback / Buffer steps.
func Harness_C13_commit_rollback_step() {
	s := verifArbitraryChannel()
	c := s.c
	pending := s.n - s.rb
	switch verifNondetInt("op") {
	case 0:
		err := c.Commit()
		if pending == 0 {
			verifAssert(err != nil && len(c.buffer) == s.n && c.rollback == s.rb, "commit_nothing_pending_errors_and_changes_nothing")
		} else {
			verifAssert(err == nil, "commit_ok")
			verifAssert(len(c.buffer) == s.rb && c.rollback == s.rb, "commit_drops_exactly_the_delivered_entries")
			for i := 0; i < 4; i++ {
				if i < s.rb {
					t, ok := verifTokOf(c.buffer[i])
					verifAssert(ok && t == s.buf[pending+i], "commit_keeps_undelivered_entries_in_order")
				}
			}
			verifReach("committed")
		}
	case 1:
		err := c.Rollback()
		if pending == 0 {
			verifAssert(err != nil && c.rollback == s.rb, "rollback_nothing_pending_errors")
		} else {
			verifAssert(err == nil && c.rollback == s.n && len(c.buffer) == s.n, "rollback_marks_all_delivered_entries")
			verifReach("rolled_back")
		}
	case 2:
		b := c.Buffer()
		verifAssert(len(b) == s.n, "buffer_returns_pending_copy")
		for i := 0; i < 4; i++ {
			if i < s.n {
				t, ok := verifTokOf(b[i])
				verifAssert(ok && t == s.buf[i], "buffer_returns_pending_copy")
			}
		}
		verifAssert(len(c.buffer) == s.n && c.rollback == s.rb, "buffer_changes_nothing")
	default:
		c.cancel()
		verifAssert(c.Commit() != nil, "commit_after_close_errors")
		verifAssert(len(c.buffer) == s.n && c.rollback == s.rb, "commit_after_close_changes_nothing")
	}
	verifAssert(len(s.src) == s.k, "txn_takes_nothing_from_source")
}

// C13 closed source never yields zero values: with an empty closed source and nothing to replay, the
// receive attempt reports nothing available.
func Harness_C13_closed_source() {
	src := make(chan vtok, 1)
	close(src)
	v, ok := reflect.ValueOf(src).TryRecv()
	verifAssert(!ok, "tryrecv_on_closed_source_is_not_ok")
	_ = v
}

// C13 history: rollback, partial re-read, rollback, commit against a reference model (7 symbolic ops).
func Harness_C13_history() {
	s := verifArbitraryChannel()
	verifAssume(s.n == 0 && s.rb == 0 && s.k == 3)
	c := s.c
	// reference model: stream position taken, committed count, replay cursor
	taken, committed, cursor := 0, 0, 0
	for step := 0; step < verifHistSteps; step++ {
		switch verifNondetIntN("op", step) {
		case 0: // Get
			if cursor < taken || taken < 3 {
				v, err := c.Get(nil)
				t, ok := verifTokOf(v)
				verifAssert(err == nil && ok && t == s.more[cursor], "history_get_returns_stream_in_order")
				if cursor == taken {
					taken++
				}
				cursor++
			}
		case 1:
			err := c.Commit()
			verifAssert((err == nil) == (cursor > committed), "history_commit_result")
			committed = cursor
		case 2:
			err := c.Rollback()
			verifAssert((err == nil) == (cursor > committed), "history_rollback_result")
			cursor = committed
		}
		b := c.Buffer()
		verifAssert(len(b) == taken-committed, "history_committed_plus_buffer_is_taken_prefix")
	}
	verifReach("end")
}
const verifHistSteps = 6

// C13 get_vs_close: a Get racing Close: once Close has completed (Done closed) nothing more is taken from
// the source, and a Get linearised after it fails.
func Harness_C13_get_vs_close() {
	src := make(chan vtok, 2)
	src <- vtok(1)
	src <- vtok(2)
	ch, _ := NewChannel(context.Background(), 0, src)
	lenAfterClose := -1
	var v interface{}
	var err error
	go func() { v, err = ch.Get(nil) }()
	go func() {
		_ = ch.Close()
		verifAtomic(func() { lenAfterClose = len(src) })
	}()
	verifFinally(func() {
		verifAssert(lenAfterClose >= 0, "close_returns")
		verifAssert(len(src) == lenAfterClose, "nothing_taken_from_the_source_after_close_completed")
		if err == nil {
			verifAssert(v == vtok(1), "get_returns_first_source_value")
		}
		verifReach("quiescent")
	})
}
