package bigbuff

import (
	"context"
	"sync"
)

// C05 waitcond_wake: the real WaitCond — waiter || signaller (sets the flag under the lock, broadcasts)
// || canceller, under every interleaving. No lost wake-up; nil only after the predicate returned true
// with the lock held; otherwise the context's error.
func Harness_C05_waitcond_wake() {
	var mu sync.Mutex
	cond := sync.NewCond(&mu)
	ctx, cancel := context.WithCancel(context.Background())
	flag := false
	doSignal := verifNondetBool("signal")
	doCancel := verifNondetBool("cancel")
	verifAssume(doSignal || doCancel) // otherwise the waiter legitimately waits forever
	var err error
	returned := false
	sawTrueLocked := false
	go func() {
		mu.Lock()
		err = WaitCond(ctx, cond, func() bool {
			if flag {
				sawTrueLocked = true
			}
			return flag
		})
		returned = true
		mu.Unlock()
	}()
	if doSignal {
		go func() {
			mu.Lock()
			flag = true
			cond.Broadcast()
			mu.Unlock()
		}()
	}
	if doCancel {
		go func() { cancel() }()
	}
	verifFinally(func() {
		verifAssert(returned, "waitcond_returns")
		if err == nil {
			verifAssert(sawTrueLocked, "nil_only_after_predicate_true_under_lock")
			verifReach("woken_by_signal")
		} else {
			verifAssert(ctx.Err() != nil && err == ctx.Err(), "otherwise_context_error")
			verifReach("woken_by_cancel")
		}
	})
}

// C05 waitcond cancel without any broadcast: returns the context's error even if nobody ever broadcasts.
func Harness_C05_waitcond_cancel_only() {
	var mu sync.Mutex
	cond := sync.NewCond(&mu)
	ctx, cancel := context.WithCancel(context.Background())
	var err error
	returned := false
	go func() {
		mu.Lock()
		err = WaitCond(ctx, cond, func() bool { return false })
		returned = true
		mu.Unlock()
	}()
	go func() { cancel() }()
	verifFinally(func() {
		verifAssert(returned && err != nil, "cancel_wakes_waiter_without_broadcast")
	})
}

// C05 waitcond_args: nil cond / nil L / nil fn error; nil ctx waits on the predicate only.
func Harness_C05_waitcond_args() {
	var mu sync.Mutex
	cond := sync.NewCond(&mu)
	verifAssert(WaitCond(context.Background(), nil, func() bool { return true }) != nil, "nil_cond_errors")
	verifAssert(WaitCond(context.Background(), &sync.Cond{}, func() bool { return true }) != nil, "nil_locker_errors")
	verifAssert(WaitCond(context.Background(), cond, nil) != nil, "nil_fn_errors")
	mu.Lock()
	verifAssert(WaitCond(nil, cond, func() bool { return true }) == nil, "nil_ctx_true_predicate_returns_nil")
	mu.Unlock()
	ctx, cancel := context.WithCancel(context.Background())
	cancel()
	mu.Lock()
	calls := 0
	err := WaitCond(ctx, cond, func() bool { calls++; return true })
	mu.Unlock()
	verifAssert(err != nil && calls == 0, "cancelled_before_call_returns_error_without_predicate")
}

// C05 get_wakes: consumer.Get parked in the asynchronous path || {Put | cancel of the caller's context |
// Buffer-side cancellation} at an arbitrary point: never stuck; a Get that errors consumes nothing.
func verifC05GetWakes(event int) {
	s := verifConcreteBuffer()
	b := s.b
	c, _, _ := s.verifAddConsumerAt(0, 0)
	ctx, cancel := context.WithCancel(context.Background())
	var v interface{}
	var err error
	returned := false
	go func() {
		v, err = c.Get(ctx)
		returned = true
	}()
	go func() {
		switch event {
		case 0:
			_ = b.Put(context.Background(), vtok(7))
		case 1:
			cancel()
		default:
			b.cancel()
		}
	}()
	verifFinally(func() {
		verifAssert(returned, "blocked_get_returns_after_the_event")
		if event == 0 {
			verifAssert(err == nil && v == vtok(7) && c.offset == 1, "get_returns_the_value_that_became_available")
		} else {
			verifAssert(err != nil && v == nil && c.offset == 0, "failed_get_consumes_nothing")
		}
		verifReach("quiescent")
	})
}

func Harness_C05_get_wakes_put()    { verifC05GetWakes(0) }
func Harness_C05_get_wakes_cancel() { verifC05GetWakes(1) }
func Harness_C05_get_wakes_close()  { verifC05GetWakes(2) }
