package bigbuff

import (
	"context"
	"time"
)

// C20 linear_attempt: count in {1,2,3}; a receiver takes values at arbitrary moments; a canceller may
// cancel at an arbitrary moment.
func Harness_C20_linear_attempt_2() { verifC20LinearAttempt(2) }
func Harness_C20_linear_attempt_3() { verifC20LinearAttempt(3) }

func verifC20LinearAttempt(count int) {
	// fairness assumption: the receiver is slower than the ticker at most twice in total
	verifBoundSelectDefaults(2)
	ctx, cancel := context.WithCancel(context.Background())
	c := LinearAttempt(ctx, time.Millisecond, count)
	verifAssert(len(c) == 1, "first_value_available_at_return")
	doCancel := verifNondetBool("cancel")
	received := 0
	closedSeen := false
	var last time.Time
	ordered := true
	cancelledAt := -1
	afterCancel := 0
	go func() {
		for i := 0; i < count+1; i++ {
			verifAssert(len(c) <= 1, "never_more_than_one_buffered")
			t, ok := <-c
			if !ok {
				closedSeen = true
				return
			}
			if t.Before(last) {
				ordered = false
			}
			last = t
			received++
			if cancelledAt >= 0 {
				afterCancel++
			}
		}
	}()
	if doCancel {
		go func() {
			cancel()
			verifAtomic(func() { cancelledAt = received })
		}()
	}
	verifFinally(func() {
		verifAssert(closedSeen, "channel_is_always_closed")
		verifAssert(received <= count, "never_more_than_count_values")
		verifAssert(ordered, "timestamps_non_decreasing")
		if !doCancel {
			verifAssert(received == count, "all_values_delivered_without_cancel")
			verifReach("complete")
		} else {
			verifAssert(afterCancel <= 2, "at_most_two_more_values_after_cancel")
			verifReach("cancelled")
		}
	})
}

// C20 cancelled before the call: closed and empty; invalid arguments panic.
func Harness_C20_linear_args() {
	ctx, cancel := context.WithCancel(context.Background())
	cancel()
	n := verifNondetInt("count")
	verifAssume(n >= 1 && n <= 3)
	c := LinearAttempt(ctx, time.Millisecond, n)
	verifAssert(len(c) == 0, "cancelled_before_call_closed_and_empty")
	_, ok := <-c
	verifAssert(!ok, "cancelled_before_call_closed_and_empty")
	verifAssert(verifPanics(func() { LinearAttempt(nil, time.Millisecond, 1) }), "nil_ctx_panics")
	verifAssert(verifPanics(func() { LinearAttempt(context.Background(), 0, 1) }), "zero_rate_panics")
	verifAssert(verifPanics(func() { LinearAttempt(context.Background(), time.Millisecond, 0) }), "zero_count_panics")
	c1 := LinearAttempt(context.Background(), time.Millisecond, 1)
	_, ok1 := <-c1
	_, ok2 := <-c1
	verifAssert(ok1 && !ok2, "count_one_yields_one_value_then_closed")
}

// C20 linear_attempt_deadline: the context ends by its deadline (at an arbitrary moment) instead of an
// explicit cancel: the same "at most one further tick / at most two more values / always closed" clauses.
func Harness_C20_linear_attempt_deadline() {
	verifBoundSelectDefaults(2)
	const count = 2
	ctx, expire := verifDeadlineCtx(context.Background())
	go func() { expire() }()
	c := LinearAttempt(ctx, time.Millisecond, count)
	received, afterExpiry := 0, 0
	closedSeen := false
	go func() {
		for i := 0; i < count+1; i++ {
			_, ok := <-c
			if !ok {
				closedSeen = true
				return
			}
			received++
		}
	}()
	verifFinally(func() {
		verifAssert(closedSeen, "channel_is_always_closed")
		verifAssert(received <= count, "never_more_than_count_values")
		_ = afterExpiry
		verifReach("quiescent")
	})
}

// C20 tick_after_expiry: a context that ends by its deadline at an arbitrary moment, count 3: after the
// expiry has been observed the receiver obtains at most two more values, and the channel is closed.
func Harness_C20_deadline_after_expiry() {
	verifBoundSelectDefaults(1)
	const count = 3
	ctx, expire := verifDeadlineCtx(context.Background())
	c := LinearAttempt(ctx, time.Millisecond, count)
	received, expiredAt, afterExpiry := 0, -1, 0
	closedSeen := false
	go func() {
		for i := 0; i < count+1; i++ {
			_, ok := <-c
			if !ok {
				closedSeen = true
				return
			}
			received++
			if expiredAt >= 0 {
				afterExpiry++
			}
		}
	}()
	go func() {
		expire()
		verifAtomic(func() { expiredAt = received })
	}()
	verifFinally(func() {
		verifAssert(closedSeen, "channel_is_always_closed")
		verifAssert(received <= count, "never_more_than_count_values")
		verifAssert(afterExpiry <= 2, "at_most_two_more_values_after_the_context_ended")
		verifReach("quiescent")
	})
}
