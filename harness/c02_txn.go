package bigbuff

import "context"

// C02 commit_step / rollback_step / nothing pending / unknown consumer.
func Harness_C02_commit_rollback_step() {
	s := verifArbitraryBuffer(0)
	c, committed, delta := s.verifAddConsumer("c")
	other, ocommitted, odelta := s.verifAddConsumer("o")
	unknown := verifNondetBool("deregistered")
	if unknown {
		delete(s.b.consumers, c)
	}
	if verifNondetBool("do_commit") {
		err := c.Commit()
		if delta == 0 {
			verifAssert(err != nil, "commit_nothing_pending_errors")
			verifAssert(c.offset == 0, "commit_nothing_pending_changes_nothing")
			if !unknown {
				verifAssert(s.b.consumers[c] == committed, "commit_nothing_pending_keeps_committed")
			}
		} else if unknown {
			verifAssert(err != nil, "commit_unknown_consumer_errors")
			verifAssert(c.offset == delta, "failed_commit_keeps_pending_reads")
			_, present := s.b.consumers[c]
			verifAssert(!present, "failed_commit_does_not_register")
		} else {
			verifAssert(err == nil, "commit_succeeds")
			verifAssert(s.b.consumers[c] == committed+delta, "commit_folds_delta_into_committed")
			verifAssert(c.offset == 0, "commit_zeroes_delta")
			verifReach("committed")
		}
	} else {
		err := c.Rollback()
		if delta == 0 {
			verifAssert(err != nil, "rollback_nothing_pending_errors")
		} else {
			verifAssert(err == nil, "rollback_succeeds")
			verifReach("rolled_back")
		}
		verifAssert(c.offset == 0, "rollback_zeroes_delta")
		if !unknown {
			verifAssert(s.b.consumers[c] == committed, "rollback_keeps_committed")
		}
	}
	verifAssert(s.b.consumers[other] == ocommitted && other.offset == odelta, "txn_leaves_other_consumers")
	verifAssert(s.b.offset == s.off && len(s.b.buffer) == s.n, "txn_leaves_buffer")
}

// C02 rollback_replays: after Rollback the following Gets return exactly the values read since the
// last commit, in order (window of up to 3 reads).
func Harness_C02_rollback_replays() {
	s := verifArbitraryBuffer(0)
	c, committed, delta := s.verifAddConsumer("c")
	verifAssume(delta == 0)
	rel := committed - s.off
	verifAssume(rel >= 0)
	k := verifNondetInt("reads")
	verifAssume(k >= 1 && k <= 3 && rel+k <= s.n)
	ctx := context.Background()
	var first [3]int
	for i := 0; i < 3; i++ {
		if i < k {
			v, err := c.Get(ctx)
			t, ok := verifTokOf(v)
			verifAssert(err == nil && ok && t == s.vals[rel+i], "reads_are_contiguous")
			first[i] = t
		}
	}
	if verifNondetBool("commit") {
		verifAssert(c.Commit() == nil, "commit_ok")
		if rel+k < s.n {
			v, err := c.Get(ctx)
			t, ok := verifTokOf(v)
			verifAssert(err == nil && ok && t == s.vals[rel+k], "after_commit_next_value_is_new")
			verifReach("after_commit")
		}
	} else {
		verifAssert(c.Rollback() == nil, "rollback_ok")
		for i := 0; i < 3; i++ {
			if i < k {
				v, err := c.Get(ctx)
				t, ok := verifTokOf(v)
				verifAssert(err == nil && ok && t == first[i], "rollback_replays_same_values_in_order")
			}
		}
		verifReach("after_rollback")
	}
}

// C02 range_pkg: package Range over the real consumer; the callback returns a symbolic bool, panics or
// deregisters the consumer (forcing Commit to fail) at a symbolic index.
func Harness_C02_range_pkg() {
	s := verifArbitraryBuffer(0)
	c, committed, delta := s.verifAddConsumer("c")
	verifAssume(delta == 0)
	rel := committed - s.off
	verifAssume(rel >= 0 && rel <= s.n)
	badAt := verifNondetInt("bad_at")
	badKind := verifNondetInt("bad_kind") // 0 none, 1 panic, 2 deregister (Commit fails), 3 return false
	verifAssume(badKind >= 0 && badKind <= 3)
	verifAssume(badAt >= 0 && badAt < 4)
	verifAssume(badKind != 0 && rel+badAt < s.n) // every run ends at badAt (no blocking Get)
	calls := 0
	var err error
	panicked := verifPanics(func() {
		err = Range(context.Background(), c, func(index int, value interface{}) bool {
			t, ok := verifTokOf(value)
			verifAssert(index == calls, "range_index_counts_calls")
			verifAssert(ok && t == s.vals[rel+index], "range_visits_values_in_order")
			// every earlier value was committed after its callback returned; this one is in flight
			verifAssert(s.b.consumers[c] == committed+index && c.offset == 1, "range_commits_after_callback_returns")
			calls++
			if index == badAt {
				switch badKind {
				case 1:
					panic("callback panic")
				case 2:
					delete(s.b.consumers, c)
				case 3:
					return false
				}
			}
			return true
		})
	})
	verifAssert(calls == badAt+1, "range_stops_at_first_bad_callback")
	verifAssert(panicked == (badKind == 1), "range_propagates_callback_panic")
	verifAssert(c.offset == 0, "range_leaves_no_uncommitted_reads")
	switch badKind {
	case 1:
		verifAssert(s.b.consumers[c] == committed+badAt, "panicking_value_not_committed")
		v, e2 := c.Get(context.Background())
		t, ok := verifTokOf(v)
		verifAssert(e2 == nil && ok && t == s.vals[rel+badAt], "in_flight_value_is_next_after_panic")
		verifReach("panic_path")
	case 2:
		verifAssert(err != nil, "failed_commit_is_reported")
		verifReach("commit_fail_path")
	case 3:
		verifAssert(err == nil && s.b.consumers[c] == committed+badAt+1, "value_committed_when_callback_returns_false")
		verifReach("false_path")
	}
}

// C02 buffer_range: Buffer.Range visits exactly the available values and stops instead of blocking.
func Harness_C02_buffer_range() {
	s := verifArbitraryBuffer(0)
	c, committed, delta := s.verifAddConsumer("c")
	verifAssume(delta == 0)
	rel := committed - s.off
	verifAssume(rel >= 0 && rel <= s.n)
	calls := 0
	err := s.b.Range(context.Background(), c, func(index int, value interface{}) bool {
		t, ok := verifTokOf(value)
		verifAssert(ok && index == calls && t == s.vals[rel+index], "buffer_range_visits_in_order")
		calls++
		return true
	})
	verifAssert(err == nil, "buffer_range_ok")
	verifAssert(calls == s.n-rel, "buffer_range_visits_exactly_available")
	verifAssert(c.offset == 0 && s.b.consumers[c] == s.off+s.n, "buffer_range_commits_everything_visited")
	verifReach("end")
}

// verifMockProducer lets a harness drive consumer.Get's asynchronous path without a Buffer.
type verifMockProducer struct {
	out chan struct {
		Value interface{}
		Error error
	}
	reqOff  int
	commits int
}

func (p *verifMockProducer) delete(c *consumer) {}
func (p *verifMockProducer) getAsync(ctx context.Context, c *consumer, offset int, cancels ...context.Context) (<-chan struct {
	Value interface{}
	Error error
}, interface{}, error) {
	p.reqOff = offset
	return p.out, nil, nil
}
func (p *verifMockProducer) commit(c *consumer, offset int) error { p.commits += offset; return nil }

// C02 get_atomic: a Get blocked in the asynchronous path is atomic with respect to Rollback / Commit on the
// same consumer from another goroutine: the position it asked for is the position it advances.
func Harness_C02_get_atomic() {
	p := &verifMockProducer{out: make(chan struct {
		Value interface{}
		Error error
	}, 1)}
	c := &consumer{done: make(chan struct{}), producer: p}
	c.cond = newCondFor(&c.mutex)
	c.ctx, c.cancel = context.WithCancel(context.Background())
	c.offset = 2 // two uncommitted reads
	doCommit := verifNondetBool("commit_instead_of_rollback")
	var v interface{}
	var err error
	go func() { v, err = c.Get(context.Background()) }()
	go func() {
		if doCommit {
			_ = c.Commit()
		} else {
			_ = c.Rollback()
		}
	}()
	go func() {
		p.out <- struct {
			Value interface{}
			Error error
		}{Value: vtok(9)}
	}()
	verifFinally(func() {
		verifAssert(err == nil && v == vtok(9), "get_returns_the_delivered_value")
		// serial outcomes: (txn then Get) asked for position 0 and ends with 1 pending read;
		// (Get then txn) asked for position 2 and ends with 0 pending reads
		verifAssert((p.reqOff == 0 && c.offset == 1) || (p.reqOff == 2 && c.offset == 0), "blocked_get_is_atomic_wrt_commit_and_rollback")
		if doCommit {
			verifAssert(p.commits == 2 || p.commits == 3, "commit_folds_exactly_the_reads_before_it")
		}
		verifReach("quiescent")
	})
}

// C02 buffer_range_put: a Put that completes while the callback of the currently last value runs is still
// visited: Buffer.Range stops only at the end of the buffer as it is when the callback has returned.
func Harness_C02_buffer_range_put() {
	s := verifArbitraryBuffer(2)
	c, committed, delta := s.verifAddConsumer("c")
	verifAssume(delta == 0)
	rel := committed - s.off
	verifAssume(rel >= 0 && rel < s.n)
	putAt := verifNondetInt("put_during_callback")
	verifAssume(putAt >= 0 && putAt < s.n-rel)
	calls := 0
	sawNew := false
	err := s.b.Range(context.Background(), c, func(index int, value interface{}) bool {
		t, ok := verifTokOf(value)
		if index < s.n-rel {
			verifAssert(ok && t == s.vals[rel+index], "buffer_range_visits_in_order")
		} else {
			verifAssert(ok && t == 777, "value_put_during_a_callback_is_visited")
			sawNew = true
		}
		if index == putAt {
			_ = s.b.Put(context.Background(), vtok(777))
		}
		calls++
		return true
	})
	verifAssert(err == nil, "buffer_range_ok")
	verifAssert(calls == s.n-rel+1 && sawNew, "buffer_range_reaches_the_end_of_the_buffer")
	d, _ := s.b.Diff(c)
	verifAssert(d == 0 && c.offset == 0, "buffer_range_leaves_nothing_unvisited")
	verifReach("end")
}
