package bigbuff

import (
	"context"
)

func verifClosed(ch <-chan struct{}) bool {
	select {
	case <-ch:
		return true
	default:
		return false
	}
}

// C12 closed_calls (Buffer): after Close, Put/NewConsumer fail cleanly, a second Close errors, Done is
// closed, contents stay readable.
func Harness_C12_buffer_closed_calls() {
	s := verifArbitraryBuffer(1)
	b := s.b
	byCtx := verifNondetBool("cancel_instead_of_close")
	if byCtx {
		b.cancel()
	} else {
		verifAssert(b.Close() == nil, "first_close_succeeds")
		verifAssert(verifClosed(b.Done()), "done_closed_after_close")
		verifAssert(b.Close() != nil, "second_close_errors")
	}
	verifAssert(b.Put(context.Background(), vtok(1)) != nil, "put_after_close_errors")
	c, err := b.NewConsumer()
	verifAssert(c == nil && err != nil, "newconsumer_after_close_errors")
	verifAssert(b.Size() == s.n && len(b.Slice()) == s.n, "contents_readable_after_close")
	verifReach("end")
}

// C12 closed_calls (consumer): after the consumer's Close, Get and Commit fail cleanly, a second Close
// errors, Done is closed, the consumer is deregistered.
func Harness_C12_consumer_closed_calls() {
	s := verifArbitraryBuffer(0)
	c, _, delta := s.verifAddConsumer("c")
	verifAssume(delta == 0) // Close waits for uncommitted reads (stated proviso of the property)
	other, oc, od := s.verifAddConsumer("o")
	verifAssert(c.Close() == nil, "first_close_succeeds")
	verifAssert(verifClosed(c.Done()), "done_closed_after_close")
	_, present := s.b.consumers[c]
	verifAssert(!present && len(s.b.consumers) == 1, "closed_consumer_is_deregistered")
	verifAssert(s.b.consumers[other] == oc && other.offset == od, "close_leaves_other_consumers")
	verifAssert(c.Close() != nil, "second_close_errors")
	v, err := c.Get(context.Background())
	verifAssert(v == nil && err != nil, "get_after_close_errors")
	verifAssert(c.Commit() != nil, "commit_after_close_errors")
	verifAssert(c.offset == 0, "failed_calls_consume_nothing")
	verifReach("end")
}

// C12 closed_calls (Channel).
func Harness_C12_channel_closed_calls() {
	s := verifArbitraryChannel()
	c := s.c
	if verifNondetBool("cancel_instead_of_close") {
		c.cancel()
	} else {
		verifAssert(c.Close() == nil, "first_close_succeeds")
		verifAssert(verifClosed(c.Done()), "done_closed_after_close")
		verifAssert(c.Close() != nil, "second_close_errors")
	}
	v, err := c.Get(context.Background())
	verifAssert(v == nil && err != nil, "get_after_close_errors")
	verifAssert(c.Commit() != nil, "commit_after_close_errors")
	verifAssert(len(s.src) == s.k && len(c.buffer) == s.n && c.rollback == s.rb, "nothing_taken_after_close")
	verifAssert(len(c.Buffer()) == s.n, "pending_buffer_readable_after_close")
}

// C12 leak_channel: NewChannel + Close / context cancel in any order: the cleanup goroutine exits, Done closes.
func Harness_C12_leak_channel() {
	ctx, cancel := context.WithCancel(context.Background())
	src := make(chan vtok, 1)
	c, err := NewChannel(ctx, 0, src)
	verifAssert(err == nil && c != nil, "newchannel_ok")
	var e1 error
	if verifNondetBool("explicit_close") {
		go func() { e1 = c.Close() }()
	}
	go func() { cancel() }()
	verifFinally(func() {
		verifAssert(verifClosed(c.Done()), "done_closed")
		verifAssert(c.Close() != nil, "close_after_termination_errors")
		_ = e1
		verifReach("quiescent")
	})
}

// C12 leak_waitcond: the watcher goroutine of WaitCond exits after WaitCond returns (no cancel ever).
func Harness_C12_leak_waitcond() {
	s := verifArbitraryBuffer(0)
	_ = s
	ctx, cancel := context.WithCancel(context.Background())
	_ = cancel
	done := false
	go func() {
		var w Workers
		w.mutex.Lock()
		cond := newCondFor(&w.mutex)
		err := WaitCond(ctx, cond, func() bool { return true })
		w.mutex.Unlock()
		verifAssert(err == nil, "predicate_true_returns_nil")
		done = true
	}()
	verifFinally(func() {
		verifAssert(done, "waitcond_returned")
		verifReach("quiescent") // stuck-state query: the watcher must have exited although ctx is never cancelled
	})
}

// C12 leak_combine: after cancelling the primary, no AfterFunc registration on the other contexts stays pending.
func Harness_C12_leak_combine() {
	p, pc := context.WithCancel(context.Background())
	a, _ := context.WithCancel(context.Background())
	r := CombineContext(p, a)
	go func() { pc() }()
	verifFinally(func() {
		verifAssert(r.Err() != nil, "result_cancelled")
		verifAssert(verifPendingAfterFuncs() == 0, "no_afterfunc_left_registered_on_other_contexts")
	})
}

// C12 close_vs_diff: a Diff (or Buffer.Range) on a consumer racing that consumer's Close: both terminate
// (lock order consumer -> buffer everywhere), Done closes, the consumer is deregistered.
func Harness_C12_close_vs_diff() {
	s := verifConcreteBuffer()
	c, _, _ := s.verifAddConsumerAt(0, 0)
	b := s.b
	var ok bool
	diffDone, closeErr := false, error(nil)
	go func() {
		_, ok = b.Diff(c)
		diffDone = true
	}()
	go func() { closeErr = c.Close() }()
	verifFinally(func() {
		verifAssert(diffDone && closeErr == nil, "diff_and_close_both_terminate")
		verifAssert(verifClosed(c.Done()), "done_closed")
		_, present := b.consumers[c]
		verifAssert(!present, "closed_consumer_is_deregistered")
		_ = ok
		verifReach("quiescent")
	})
}
