package bigbuff

// C06/C07 pubsub_one: one sender || one standing subscriber that receives and Waits (two messages in the
// thorough variant). Send(v) = n means exactly n receipts, acknowledged with Wait before Send returns.
func Harness_C06_pubsub_one() {
	x := NewChanPubSub(make(chan int))
	verifAtomic(func() { x.Subscribe() })
	received := 0
	acked := 0
	var got int
	sent := -1
	ackedAtReturn := -1
	go func() {
		sent = x.Send(7)
		ackedAtReturn = acked
	}()
	go func() {
		got = <-x.C()
		received++
		x.Wait()
		acked++
	}()
	verifFinally(func() {
		verifAssert(sent == 1 && received == 1 && got == 7, "send_reaches_the_standing_subscriber_once")
		verifAssert(ackedAtReturn == 1, "send_returns_only_after_every_receiver_acknowledged_with_wait")
		verifAssert(x.Add(0) == 1, "subscriber_count_unchanged")
		verifReach("quiescent")
	})
}

// C06: Send with nobody subscribed returns 0 without blocking.
func Harness_C06_send_no_subscribers() {
	x := NewChanPubSub(make(chan int))
	verifAssert(x.Send(1) == 0, "send_without_subscribers_returns_zero")
	x.Subscribe()
	x.Unsubscribe()
	verifAssert(x.Send(2) == 0, "send_after_all_unsubscribed_returns_zero")
	verifAssert(x.Add(0) == 0, "count_zero")
}

// C07 unsub_mid_send_2: sender || a subscriber that unsubscribes at an arbitrary point without ever
// receiving (the TryRLock / ping.Add(0) spin and the ping.Add(-1) absorption).
func Harness_C07_unsub_mid_send() {
	verifBoundTryFailures(2) // spin bound (assumption): the TryRLock loop fails at most twice
	x := NewChanPubSub(make(chan int))
	verifAtomic(func() { x.Subscribe() })
	sent := -1
	go func() { sent = x.Send(7) }()
	go func() { x.Unsubscribe() }()
	verifFinally(func() {
		verifAssert(sent == 0, "withdrawn_subscriber_is_not_counted")
		verifAssert(x.Add(0) == 0, "count_is_subscribes_minus_unsubscribes")
		select {
		case <-x.broken:
			verifAssert(false, "instance_not_broken")
		default:
		}
		verifAssert(x.ping.Add(0) == 0, "ping_back_to_zero")
		// no lock is left held: later Sends / Subscribes / Unsubscribes can proceed
		free := x.sendingMu.TryLock()
		verifAssert(free, "sending_lock_is_released")
		if free {
			x.sendingMu.Unlock()
		}
		verifReach("quiescent")
	})
}

// C07 sanity_delta: sanityCheckSubscribersDelta for all 64-bit inputs panics exactly on
// overflow/underflow/negative values and marks the instance broken when it does.
func Harness_C07_sanity_delta() {
	x := NewChanPubSub(make(chan int))
	subs, delta := verifNondetInt("subscribers"), verifNondetInt("delta")
	// the callers pass int(int32) values and deltas within +-MaxInt32
	verifAssume(subs >= -(1<<31) && subs < 1<<31 && delta >= -(1<<31)+1 && delta < 1<<31)
	panicked := verifPanics(func() { x.sanityCheckSubscribersDelta(subs, delta) })
	old := int(int32(subs) - int32(delta))
	bad := (delta > 0 && old >= subs) || (delta < 0 && old <= subs) || subs < 0 || old < 0
	verifAssert(panicked == bad, "sanity_check_panics_exactly_on_invalid_transitions")
	broken := false
	select {
	case <-x.broken:
		broken = true
	default:
	}
	verifAssert(broken == bad, "sanity_check_breaks_exactly_when_it_panics")
}
