package bigbuff

// C14 workers_two: two callers with symbolic counts in {1,2}; each function runs exactly once, the caller
// gets exactly its result, concurrency stays within the largest requested count, nothing is starved, and
// the pool drains to zero.
func Harness_C14_workers_1_1() { verifC14Workers(1, 1) }
func Harness_C14_workers_2_1() { verifC14Workers(2, 1) }
func Harness_C14_workers_1_2() { verifC14Workers(1, 2) }

func verifC14Workers(c0, c1 int) {
	var w Workers
	running, maxRunning := 0, 0
	var ran [2]int
	var res [2]interface{}
	var errs [2]error
	var returned [2]bool
	counts := [2]int{c0, c1}
	for i := 0; i < 2; i++ {
		i := i
		go func() {
			res[i], errs[i] = w.Call(counts[i], func() (interface{}, error) {
				running++
				if running > maxRunning {
					maxRunning = running
				}
				ran[i]++
				verifYield()
				running--
				return vtok(10 + i), nil
			})
			returned[i] = true
		}()
	}
	verifFinally(func() {
		largest := counts[0]
		if counts[1] > largest {
			largest = counts[1]
		}
		for i := 0; i < 2; i++ {
			verifAssert(returned[i], "every_call_returns")
			verifAssert(ran[i] == 1, "each_function_runs_exactly_once")
			verifAssert(res[i] == vtok(10+i) && errs[i] == nil, "caller_gets_its_own_result")
		}
		verifAssert(maxRunning <= largest, "concurrency_within_largest_requested_count")
		verifAssert(w.Count() == 0 && len(w.queue) == 0, "pool_drains_to_zero")
		verifReach("quiescent")
	})
}


type verifWorkItem = struct {
	value  func() (interface{}, error)
	output chan<- struct {
		result interface{}
		error  error
	}
}

// C14 worker_drain: one worker goroutine body run from an arbitrary valid state (queue of <= 2 items,
// count >= 1, any target): it executes queued functions in FIFO order exactly once each, delivers exactly
// the function's result and closes the reply channel, and exits decrementing count exactly once, only when
// the queue is empty or the pool is over target.
func Harness_C14_worker_drain() {
	var w Workers
	w.cond = nil
	count, target, qlen := verifNondetInt("count"), verifNondetInt("target"), verifNondetInt("queue_len")
	verifAssume(count >= 1 && count <= 3 && target >= 1 && target <= 3 && qlen >= 0 && qlen <= 2)
	w.count, w.target = count, target
	var mu = &w.mutex
	_ = mu
	order := 0
	var ranAt [2]int
	var outs [2]chan struct {
		result interface{}
		error  error
	}
	items := make([]*verifWorkItem, 2)
	for i := 0; i < 2; i++ {
		i := i
		outs[i] = make(chan struct {
			result interface{}
			error  error
		}, 1)
		items[i] = &verifWorkItem{value: func() (interface{}, error) {
			order++
			ranAt[i] = order
			return vtok(50 + i), nil
		}, output: outs[i]}
	}
	w.queue = items[:qlen]
	// cond is needed when count reaches zero
	Harness_helper_initCond(&w)
	w.worker()
	processed := order
	verifAssert(w.count == count-1, "worker_exit_decrements_count_once")
	if count > target {
		verifAssert(processed == 0, "over_target_worker_exits_without_taking_work")
		verifAssert(len(w.queue) == qlen, "over_target_worker_leaves_queue")
		verifReach("over_target")
	} else {
		verifAssert(processed == qlen && len(w.queue) == 0, "worker_drains_queue_before_exiting")
		for i := 0; i < 2; i++ {
			if i < qlen {
				verifAssert(ranAt[i] == i+1, "fifo_exactly_once")
				r, ok := <-outs[i]
				verifAssert(ok && r.result == vtok(50+i) && r.error == nil, "reply_is_the_functions_result")
				_, ok2 := <-outs[i]
				verifAssert(!ok2, "reply_channel_closed_after_one_value")
			}
		}
		verifReach("drained")
	}
}

func Harness_helper_initCond(w *Workers) {
	w.mutex.Lock()
	if w.cond == nil {
		w.cond = newCondFor(&w.mutex)
	}
	w.mutex.Unlock()
}

// C14 call_single: one caller (count 1 or 2) racing with Wait.
func Harness_C14_call_single_1() { verifC14CallSingle(1) }
func Harness_C14_call_single_2() { verifC14CallSingle(2) }

func verifC14CallSingle(n int) {
	var w Workers
	ran := 0
	var res interface{}
	var err error
	returned, waited := false, false
	go func() {
		res, err = w.Call(n, func() (interface{}, error) { ran++; return vtok(9), nil })
		returned = true
	}()
	waited = true
	verifFinally(func() {
		verifAssert(returned && waited, "call_returns")
		verifAssert(ran == 1 && res == vtok(9) && err == nil, "function_runs_once_and_result_is_returned")
		verifAssert(w.Count() == 0 && len(w.queue) == 0, "pool_drains_to_zero")
	})
}

// C14 wait_recheck: Wait returns only when no worker is running. A woken Wait must re-check the count
// after it re-acquires the mutex: here the last worker exits (count 1 -> 0, broadcast) and a new worker is
// started (count 0 -> 1) before or after the waiter gets the mutex back.
func Harness_C14_wait_recheck() {
	var w Workers
	Harness_helper_initCond(&w)
	w.count = 1
	verifDaemon("Harness_C14_wait_recheck$1") // legitimately parked if the new worker started first
	// a logical clock shared by the two goroutines (ordinary memory, so the native replay observes it too)
	seq, retStep, p2Step := 0, 0, 0
	go func() {
		w.Wait()
		seq++
		retStep = seq
	}()
	go func() {
		w.mutex.Lock()
		w.count--
		if w.count == 0 {
			w.cond.Broadcast()
		}
		w.mutex.Unlock()
		w.mutex.Lock()
		w.count++
		seq++
		p2Step = seq
		w.mutex.Unlock()
	}()
	verifFinally(func() {
		if retStep != 0 {
			verifAssert(p2Step == 0 || p2Step > retStep, "wait_returns_only_with_zero_workers")
			verifReach("returned")
		}
	})
}

// C14 call_twice: one goroutine makes two Calls one after the other; the worker that served the first is
// on its way out (queue empty) while the second is enqueued. Whatever the interleaving, the second
// function is executed too (no starvation: a queued function is never left without a worker), each
// runs exactly once, results are not mixed up, and the pool drains to zero.
func Harness_C14_call_twice() {
	var w Workers
	var ran [2]int
	var res [2]interface{}
	var errs [2]error
	done := false
	go func() {
		res[0], errs[0] = w.Call(1, func() (interface{}, error) { ran[0]++; return vtok(10), nil })
		res[1], errs[1] = w.Call(1, func() (interface{}, error) { ran[1]++; return vtok(11), nil })
		done = true
	}()
	verifFinally(func() {
		verifAssert(done, "both_calls_return")
		verifAssert(ran[0] == 1 && ran[1] == 1, "each_function_runs_exactly_once")
		verifAssert(res[0] == vtok(10) && res[1] == vtok(11) && errs[0] == nil && errs[1] == nil, "caller_gets_its_own_result")
		verifAssert(w.Count() == 0 && len(w.queue) == 0, "pool_drains_to_zero")
		verifReach("quiescent")
	})
}

// C14 worker_exit_vs_call: one worker is running with an empty queue (it is about to exit) while a Call
// enqueues a function. Whatever the interleaving, the function is executed - by the departing worker if
// it sees the item, by a freshly spawned one otherwise - and the pool drains to zero: a queued function
// is never left without a worker.
func Harness_C14_worker_exit_vs_call() {
	var w Workers
	Harness_helper_initCond(&w)
	w.count, w.target = 1, 1
	ran := 0
	var res interface{}
	var err error
	returned := false
	go w.worker()
	go func() {
		res, err = w.Call(1, func() (interface{}, error) { ran++; return vtok(9), nil })
		returned = true
	}()
	verifFinally(func() {
		verifAssert(returned, "call_returns")
		verifAssert(ran == 1 && res == vtok(9) && err == nil, "function_runs_once_and_result_is_returned")
		verifAssert(w.Count() == 0 && len(w.queue) == 0, "pool_drains_to_zero")
		verifReach("quiescent")
	})
}
