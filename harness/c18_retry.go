package bigbuff

import (
	"context"
	"errors"
	"time"
)

// C18 retry_loop: the closure returned by ExponentialRetry with the operation's outcome symbolic per
// call (success / plain error / FatalError nested to depth <= 3) and cancellation at a symbolic call,
// up to 4 calls.
func Harness_C18_retry_loop() {
	const K = 4
	ctx, cancel := context.WithCancel(context.Background())
	rate := time.Duration(verifNondetInt("rate"))
	plain := errors.New("plain")
	inner := errors.New("inner")
	calls := 0
	cancelAt := verifNondetInt("cancel_during_call") // the context is cancelled while this call runs (-1: never)
	cancelled := false
	calledAfterCancel := false
	var delaysN [K]int
	realWait := waitDuration
	waitDuration = func(c context.Context, d time.Duration) {
		// the slot count drawn for this delay
		delaysN[calls-1] = verifLastRandN()
		r := verifLastRand()
		effRate := rate
		if effRate <= 0 {
			effRate = 300 * time.Millisecond
		}
		if calls == 1 {
			// checked on the first retry, where the product is the same term on both sides (no
			// multiplication is handed to the solver); Harness_C18_backoff covers every counter value
			verifAssert(d == time.Duration(r)*effRate, "delay_is_slots_times_rate")
		}
		verifAssert(r >= 0 && r < verifLastRandN(), "slots_in_range")
	}
	defer func() { waitDuration = realWait }()
	var outcome, drawn [K]int
	for k := 0; k < K; k++ {
		drawn[k] = verifNondetIntN("outcome", k)
	}
	value := func() (interface{}, error) {
		k := calls
		calls++
		if cancelled {
			calledAfterCancel = true
		}
		if k == cancelAt {
			cancel()
			cancelled = true
		}
		outcome[k] = drawn[k]
		switch outcome[k] {
		case 0:
			return vtok(100 + k), nil
		case 1:
			return vtok(200 + k), plain
		case 2:
			return vtok(300 + k), FatalError(inner)
		case 3:
			return vtok(300 + k), FatalError(FatalError(inner))
		default:
			return vtok(300 + k), FatalError(FatalError(FatalError(inner)))
		}
	}
	// bound: one of the first K calls ends the loop (success, fatal, or cancellation)
	ends := false
	for k := 0; k < K; k++ {
		o := verifNondetIntN("outcome", k)
		verifAssume(o >= 0 && o <= 4)
		if o != 1 || cancelAt == k {
			ends = true
		}
	}
	verifAssume(ends && cancelAt >= -1 && cancelAt < K)
	res, err := ExponentialRetry(ctx, rate, value)()
	verifAssert(calls >= 1 && calls <= K, "loop_ends_within_bound")
	verifAssert(!calledAfterCancel, "never_starts_a_call_after_cancellation")
	last := calls - 1
	for k := 0; k < K; k++ {
		if k < last {
			verifAssert(outcome[k] == 1, "continues_only_after_plain_errors")
			verifAssert(delaysN[k] == 1<<(k+1), "kth_retry_draws_from_2_pow_k_slots")
		}
	}
	lo := outcome[0]
	for k := 1; k < K; k++ {
		if k == last {
			lo = outcome[k]
		}
	}
	t, _ := verifTokOf(res)
	switch {
	case lo == 0:
		verifAssert(err == nil && t == 100+last, "first_success_result_and_nil_error")
		verifReach("success")
	case lo >= 2:
		verifAssert(err == inner && t == 300+last, "fatal_returns_result_and_fully_unwrapped_error")
		verifAssert(!isFatalError(err), "no_fatal_wrapper_left")
		verifReach("fatal")
	default:
		verifAssert(cancelled && res == nil && err != nil && err == ctx.Err(), "cancelled_returns_nil_and_context_error")
		verifReach("cancelled")
	}
}

// C18 backoff: calcExponentialRetry for every rate and every counter: slots drawn from [0, 2^min(c,31)).
func Harness_C18_backoff() {
	rate := time.Duration(verifNondetInt("rate"))
	c := uint32(verifNondetInt("c"))
	d := calcExponentialRetry(rate, c)
	n, r := verifLastRandN(), verifLastRand()
	m := c
	if m > 31 {
		m = 31
	}
	verifAssert(n == 1<<m, "slot_count_is_2_pow_min_c_31")
	verifAssert(r >= 0 && r < n, "slots_in_range")
	verifAssert(d == time.Duration(r)*rate, "delay_is_slots_times_rate")
}

// C18 waitDuration returns at once for d <= 0 and otherwise waits for the timer or cancellation.
func Harness_C18_wait_duration() {
	ctx, cancel := context.WithCancel(context.Background())
	d := time.Duration(verifNondetInt("d"))
	if verifNondetBool("cancel_first") {
		cancel()
	}
	waitDuration(ctx, d)
	verifReach("returned")
	verifAssert(verifPanics(func() { ExponentialRetry(ctx, 0, nil) }), "nil_value_panics")
}
