package bigbuff

// C17 worker_two_holders: two Do callers whose done calls happen at arbitrary points, the real wait()/do()
// goroutines, fn parks until stop is closed.
func Harness_C17_worker_two_holders() {
	var w Worker
	running := 0
	maxRunning := 0
	starts := 0
	holders := 0        // ghost: outstanding done functions
	stopWhileHeld := false
	fn := func(stop <-chan struct{}) {
		running++
		starts++
		if running > maxRunning {
			maxRunning = running
		}
		<-stop
		if holders > 0 {
			stopWhileHeld = true
		}
		verifYield() // the instance may take arbitrarily long to exit after it was told to stop
		running--
	}
	for i := 0; i < 2; i++ {
		go func() {
			done := w.Do(fn)
			verifAtomic(func() { holders++ })
			// between Do returning and done being called an instance exists whose stop channel is open
			verifAtomic(func() {
				w.mu.Lock()
				open := w.stop != nil
				if open {
					select {
					case <-w.stop:
						open = false
					default:
					}
				}
				w.mu.Unlock()
				verifAssert(open, "instance_with_open_stop_while_held")
			})
			verifAtomic(func() { holders-- })
			done()
		}()
	}
	verifFinally(func() {
		verifAssert(maxRunning <= 1, "never_two_instances")
		verifAssert(!stopWhileHeld, "stop_closed_only_after_every_done")
		verifAssert(running == 0, "every_started_instance_is_stopped")
		verifAssert(starts >= 1 && starts <= 2, "one_or_two_instances")
		verifAssert(w.stop == nil && w.done == nil && w.wg == nil, "worker_state_reset")
		verifReach("quiescent")
	})
}
