package bigbuff

import (
	"context"
	"sync"
)

const verifMaxBuf = 4

// verifBufState is a symbolic Buffer pre-state: retained values vals[0..n), absolute offset off.
type verifBufState struct {
	b    *Buffer
	n    int
	off  int
	vals [verifMaxBuf]int
}

// verifArbitraryBuffer builds a Buffer in an arbitrary valid state (all lazily initialised fields
// present, so ensure() starts nothing): len(buffer) = n <= 4 symbolic, offset symbolic, values symbolic.
func verifArbitraryBuffer(capExtra int) *verifBufState {
	s := &verifBufState{}
	b := &Buffer{}
	b.ctx, b.cancel = context.WithCancel(context.Background())
	b.consumers = make(map[*consumer]int)
	b.done = make(chan struct{})
	b.cleaner = &CleanerConfig{Cleaner: DefaultCleaner, Cooldown: DefaultCleanerCooldown}
	b.cond = sync.NewCond(&b.mutex)
	s.n = verifNondetInt("buf_len")
	verifAssume(s.n >= 0 && s.n <= verifMaxBuf)
	s.off = verifNondetInt("buf_offset")
	verifAssume(s.off >= 0 && s.off < 1<<62) // stated bound: the absolute offset counter does not wrap
	backing := make([]interface{}, verifMaxBuf+capExtra)
	for i := 0; i < verifMaxBuf; i++ {
		s.vals[i] = verifNondetIntN("val", i)
		backing[i] = vtok(s.vals[i])
	}
	b.buffer = backing[:s.n]
	b.offset = s.off
	s.b = b
	return s
}

// verifAddConsumer registers a consumer with symbolic committed offset and uncommitted delta.
func (s *verifBufState) verifAddConsumer(name string) (*consumer, int, int) {
	b := s.b
	c := &consumer{done: make(chan struct{}), producer: b}
	c.cond = sync.NewCond(&c.mutex)
	c.ctx, c.cancel = context.WithCancel(b.ctx)
	committed := verifNondetInt(name + "_committed")
	delta := verifNondetInt(name + "_delta")
	verifAssume(delta >= 0 && delta <= 8)
	verifAssume(committed >= 0 && committed < 1<<62)
	// representation invariant: a consumer never reads past the end of what was put
	verifAssume(committed+delta <= s.off+s.n)
	b.consumers[c] = committed
	c.offset = delta
	return c, committed, delta
}

func verifTokOf(v interface{}) (int, bool) {
	t, ok := v.(vtok)
	return int(t), ok
}

// verifConcreteBuffer: an initialised, empty Buffer (no cleanup goroutine).
func verifConcreteBuffer() *verifBufState {
	s := &verifBufState{}
	b := &Buffer{}
	b.ctx, b.cancel = context.WithCancel(context.Background())
	b.consumers = make(map[*consumer]int)
	b.done = make(chan struct{})
	b.cleaner = &CleanerConfig{Cleaner: DefaultCleaner, Cooldown: DefaultCleanerCooldown}
	b.cond = sync.NewCond(&b.mutex)
	s.b = b
	return s
}

func (s *verifBufState) verifAddConsumerAt(committed, delta int) (*consumer, int, int) {
	b := s.b
	c := &consumer{done: make(chan struct{}), producer: b}
	c.cond = sync.NewCond(&c.mutex)
	c.ctx, c.cancel = context.WithCancel(b.ctx)
	b.consumers[c] = committed
	c.offset = delta
	return c, committed, delta
}
