package bigbuff

import "context"

// C15 publish_bookkeeping: PublishContext with two subscriptions for the key (each with a context that
// may already be cancelled and a buffered target that may be full), one subscription with an incompatible
// element type and one under another key.
func Harness_C15_publish() {
	var n Notifier
	t0, t1 := make(chan vtok, 1), make(chan vtok, 1)
	tIncompatible := make(chan string, 1)
	tOther := make(chan vtok, 1)
	// subscription 0's context ends by deadline (DeadlineExceeded), subscription 1's by an explicit cancel
	ctx0, c0 := verifDeadlineCtx(context.Background())
	ctx1, c1 := context.WithCancel(context.Background())
	full := [2]bool{verifNondetBool("full0"), verifNondetBool("full1")}
	dead := [2]bool{verifNondetBool("cancelled0"), verifNondetBool("cancelled1")}
	if full[0] {
		t0 <- vtok(1)
	}
	if full[1] {
		t1 <- vtok(1)
	}
	n.SubscribeContext(ctx0, "k", t0)
	n.SubscribeContext(ctx1, "k", t1)
	n.Subscribe("k", tIncompatible)
	n.Subscribe("other", tOther)
	if dead[0] {
		c0()
	}
	if dead[1] {
		c1()
	}
	// a full target whose context is live would block the publish forever (by design): excluded
	verifAssume(!(full[0] && !dead[0]) && !(full[1] && !dead[1]))
	n.Publish("k", vtok(7))
	for i, t := range []chan vtok{t0, t1} {
		if !full[i] && !dead[i] {
			verifAssert(len(t) == 1, "eligible_subscription_receives_exactly_once")
			v := <-t
			verifAssert(v == vtok(7), "eligible_subscription_receives_the_value")
			verifReach("delivered")
		}
		if full[i] {
			verifAssert(len(t) == 1, "full_target_untouched")
			v := <-t
			verifAssert(v == vtok(1), "full_target_untouched")
		}
		if !full[i] && dead[i] {
			// its context had ended (by cancel or by deadline) before the publish began: not eligible
			verifAssert(len(t) == 0, "subscription_whose_context_has_ended_receives_nothing")
		}
	}
	verifAssert(len(tIncompatible) == 0, "incompatible_element_type_receives_nothing")
	verifAssert(len(tOther) == 0, "other_key_receives_nothing")
	verifReach("end")
}

// C15 registry: duplicate Subscribe and unmatched Unsubscribe panic without changing the registry; after
// Unsubscribe the target receives nothing from later publishes.
func Harness_C15_registry() {
	var n Notifier
	t0, t1 := make(chan vtok, 1), make(chan vtok, 1)
	n.Subscribe("k", t0)
	n.Subscribe("k", t1)
	verifAssert(verifPanics(func() { n.Subscribe("k", t0) }), "duplicate_subscribe_panics")
	verifAssert(len(n.subscribers) == 1 && len(n.subscribers["k"]) == 2, "duplicate_subscribe_leaves_registry")
	verifAssert(verifPanics(func() { n.Unsubscribe("other", t0) }), "unmatched_unsubscribe_panics")
	verifAssert(len(n.subscribers) == 1 && len(n.subscribers["k"]) == 2, "unmatched_unsubscribe_leaves_registry")
	n.Unsubscribe("k", t0)
	n.Publish("k", vtok(7))
	verifAssert(len(t0) == 0 && len(t1) == 1, "unsubscribed_target_receives_nothing")
	n.Unsubscribe("k", t1)
	verifAssert(n.subscribers == nil, "registry_empty_after_all_unsubscribed")
	verifAssert(verifPanics(func() { n.Unsubscribe("k", t1) }), "second_unsubscribe_panics")
}

// C15 publish_nil: Publish(key, nil) with a subscription whose element type accepts nil.
func Harness_C15_publish_nil() {
	var n Notifier
	t := make(chan interface{}, 1)
	n.Subscribe("k", t)
	isNil := verifNondetBool("value_is_nil")
	var v interface{} = vtok(7)
	if isNil {
		v = nil
	}
	panicked := verifPanics(func() { n.Publish("k", v) })
	verifAssert(!panicked, "publish_does_not_panic")
	if !panicked {
		verifAssert(len(t) == 1, "nilable_target_receives_the_value")
	}
}

// C15 publish_cancel_during: a publish with its own (live) context; subscription 1's target is full and its
// context is cancelled by the environment immediately before one of reflect.Select's evaluations (every
// choice of which one, via the verifBefore hook); subscription 0 is eligible throughout. The publish must
// deliver to subscription 0 exactly once, drop subscription 1 when it is cancelled, and return.
func Harness_C15_publish_cancel_during() {
	var n Notifier
	t0, t1 := make(chan vtok, 1), make(chan vtok, 1)
	pctx, pcancel := context.WithCancel(context.Background())
	_ = pcancel
	ctx0, _ := context.WithCancel(context.Background())
	ctx1, c1 := context.WithCancel(context.Background())
	t1 <- vtok(1) // full: subscription 1 can only leave through its context
	n.SubscribeContext(ctx0, "k", t0)
	n.SubscribeContext(ctx1, "k", t1)
	selects := 0
	cancelAt := verifNondetInt("cancel_before_select")
	verifAssume(cancelAt >= 0 && cancelAt <= 1)
	verifBefore("reflect.Select", func() {
		if selects == cancelAt {
			c1()
		}
		selects++
	})
	n.PublishContext(pctx, "k", vtok(7))
	verifAssert(len(t0) == 1, "eligible_subscription_receives_exactly_once")
	v := <-t0
	verifAssert(v == vtok(7), "eligible_subscription_receives_the_value")
	verifAssert(len(t1) == 1, "cancelled_full_target_untouched")
	verifAssert(selects == 2, "one_select_per_departure")
	verifReach("end")
}
