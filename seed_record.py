#!/usr/bin/env python3
# usage: seed_record.py <name> <property> <outdir> <needs> <caught_by> <ran>
import sys, os, shutil, json
name, prop, out, needs, caught, ran = sys.argv[1:7]
d = os.path.join('/verif/seeded', name)
os.makedirs(d, exist_ok=True)
for f in ('patch.diff', 'zz_demo_test.go', 'notes.md', 'confirm.txt'):
    p = os.path.join(out, f)
    if os.path.exists(p):
        shutil.copy(p, os.path.join(d, f if f != 'zz_demo_test.go' else 'zz_demo_test.go.txt'))
json.dump({"breaks_property": prop, "needs_to_manifest": needs, "caught_by": caught, "what_was_run": ran,
           "confirmed": "seed_confirm.sh: demo passes without the change, fails with it, pinned suite passes with it (modulo the baseline's always-failing/flaky tests); see confirm.txt"},
          open(os.path.join(d, 'meta.json'), 'w'), indent=1)
print("recorded", d)
