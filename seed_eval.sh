#!/bin/bash
# usage: seed_eval.sh <patch> <prop> [tier]; applies the patch to /repo, runs the check, reverts.
patch=$1; prop=$2; tier=${3:-quick}
cd /verif
git -C /repo apply $patch || { echo "patch does not apply"; exit 2; }
./check $prop --tier $tier
rc=$?
git -C /repo checkout -- .
echo "check exit=$rc"
