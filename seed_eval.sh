#!/bin/bash
# usage: seed_eval.sh <patch> <prop> [tier]; applies the patch to a private copy of /repo (so other work on
# /repo is not disturbed), runs the check against it via VERIF_REPO, removes the copy.
patch=$1; prop=$2; tier=${3:-quick}
d=$(mktemp -d /tmp/seedrepo.XXXXXX)
rsync -a --exclude .git /repo/ $d/
(cd $d && patch -p1 -s < $patch) || { echo "patch does not apply"; rm -rf $d; exit 2; }
cd /verif
VERIF_REPO=$d VERIF_EVIDENCE_DIR=$d/.evidence ./check $prop --tier $tier
rc=$?
rm -rf $d
echo "check exit=$rc"
